#!/bin/bash
# Re-run every seeded change under /verif/seeded against the *current* /repo tree: apply, run the
# property's quick check, undo. Prints one line per change. (Patches written against an older
# /repo HEAD may no longer apply once a fix: commit has rewritten the same lines.)
cd "$(dirname "$0")/.."
for d in $PWD/seeded/*/; do
  n=$(basename $d); p=${n%%-*}
  [ "$p" = "X1" ] || [ "$p" = "X2" ] && p=$(python3 -c "import json;print(json.load(open('$d/meta.json'))['property'])")
  if ! git -C /repo apply --check $d/patch.diff 2>/dev/null; then echo "$n: patch no longer applies to the current tree"; continue; fi
  git -C /repo apply $d/patch.diff
  extra=""
  out=$(./check $p quick 2>&1); rc=$?
  cls=$(echo "$out" | grep '^VIOLATION' | sed 's/.*class=\([^ ]*\).*/\1/' | sort -u | tr '\n' ' ')
  if [ $rc -eq 0 ] && [ "$p" = "C15" ]; then out2=$(./check C18 quick 2>&1); rc2=$?; [ $rc2 -eq 1 ] && extra=" (C18: $(echo "$out2" | grep '^VIOLATION' | sed 's/.*class=\([^ ]*\).*/\1/' | sort -u | tr '\n' ' '))"; fi
  git -C /repo checkout -- .
  echo "$n: check $p rc=$rc classes: $cls$extra"
done
