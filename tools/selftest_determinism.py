#!/usr/bin/env python3
"""Determinism self-test (DESIGN 2.6): every engine is run for several VERIF_SEEDs, each at
worker counts 1, 4 and 16 and twice at 16, in separate processes; the order-independent event-log
hash (per index: clock reads, simulated elapsed time, entropy draws, results, findings) must be
identical. Evidence goes to a scratch VERIF_DIR, never to /verif/evidence.
usage: selftest_determinism.py [nseeds]"""
import json, os, shutil, subprocess, sys, tempfile

VERIF = os.path.dirname(os.path.dirname(os.path.abspath(__file__)))
SIM = os.path.join(VERIF, "sim/target/release/sim")
nseeds = int(sys.argv[1]) if len(sys.argv) > 1 else 6
small = {"VERIF_R_COUNT": "1500", "VERIF_N_COUNT": "20000", "VERIF_D_COUNT": "400", "VERIF_D_CT": "8", "VERIF_B_COUNT": "120"}
bad = 0
total = 0
for prop in (os.environ.get("DET_PROPS") or "C05,C19,C15,C18").split(","):
    for seed in range(100, 100 + nseeds):
        hashes = []
        for jobs in ["1", "4", "16", "16"]:
            d = tempfile.mkdtemp(prefix="verif-det-", dir="/dev/shm" if os.path.isdir("/dev/shm") else None)
            shutil.copy(os.path.join(VERIF, "known_findings.json"), d)
            shutil.copy(os.path.join(VERIF, "properties.jsonl"), d)
            env = dict(os.environ, VERIF_DIR=d, VERIF_SEED=str(seed), VERIF_JOBS=jobs, **small)
            env.pop("RUST_BACKTRACE", None)
            p = subprocess.run([SIM, "check", prop, "quick"], env=env, stdout=subprocess.PIPE, stderr=subprocess.PIPE, text=True)
            try:
                ev = json.load(open(os.path.join(d, "evidence", prop + ".json")))
                hashes.append((ev["coverage"]["event_log_hash"], p.returncode))
            except Exception as e:
                hashes.append(("<no evidence: %s>" % e, p.returncode))
            shutil.rmtree(d, ignore_errors=True)
        total += 1
        if len(set(hashes)) != 1:
            bad += 1
            print(f"NONDETERMINISTIC engine-of-{prop} seed={seed}: {hashes}")
        else:
            print(f"ok {prop} seed={seed} {hashes[0]}")
print(f"determinism: {total - bad}/{total} (engine, seed) pairs identical across worker counts 1/4/16 and a repeat")
sys.exit(1 if bad else 0)
