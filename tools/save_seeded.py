#!/usr/bin/env python3
"""save_seeded.py <PROP> <suffix e.g. -r4> <k> <change> <needs> <result>: copy a sub-agent's confirmed
change from /tmp/seeded-out/out-<PROP><suffix>/<k>/ to /verif/seeded/<PROP><suffix>-<k>/ (patch.diff,
README.agent.md, demo sources) and write meta.json."""
import sys, os, shutil, json
prop, suf, k, change, needs, result = sys.argv[1:7]
src = f"/tmp/seeded-out/out-{prop}{suf}/{k}"
dst = f"/verif/seeded/{prop}{suf}-{k}"
os.makedirs(dst, exist_ok=True)
shutil.copy(f"{src}/patch.diff", f"{dst}/patch.diff")
shutil.copy(f"{src}/README.md", f"{dst}/README.agent.md")
if os.path.isdir(f"{src}/demo"):
    shutil.rmtree(f"{dst}/demo", ignore_errors=True)
    shutil.copytree(f"{src}/demo", f"{dst}/demo", ignore=shutil.ignore_patterns("target", "work", "*.log"))
json.dump({
    "property": prop, "change": change, "needs_to_manifest": needs,
    "written_by": f"independent sub-agent (round {suf.lstrip('-r') or '1'} for this property, fresh worktree of the repaired tree; given only the property text)",
    "confirmed_by_me": f"tools/eval_seeded.sh (OUTSUF={suf}): 293/293 tests with the change, demo exit 1 with / 0 without, then applied to /repo, `./check {prop} quick`, undone",
    "result": result,
}, open(f"{dst}/meta.json", "w"), indent=1)
print("saved", dst)
