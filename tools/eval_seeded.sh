#!/bin/bash
# eval_seeded.sh <PROP> <k> [checks...]: confirm a sub-agent's seeded change in its scratch
# worktree (tests pass with it, demo fails with it and passes without), then apply it to /repo,
# run the given checks (default: ./check PROP quick), and undo it straight afterwards.
P=$1; K=$2; shift 2
CHECKS=${@:-$P}
WT=/tmp/wt-$P; OUT=/tmp/seeded-out/out-$P${OUTSUF:-}/$K
export CARGO_NET_OFFLINE=true; unset RUST_BACKTRACE
set -u
cd $WT || exit 2
git checkout -q -- . ; git apply $OUT/patch.diff || { echo "patch does not apply"; exit 2; }
t=$(cargo test --workspace --no-fail-fast --offline 2>&1 | grep -E "^test result" | awk '{p+=$4; f+=$6} END {print p" passed "f" failed"}')
echo "tests with change: $t"
demo_run() { ( cd $OUT/demo && cargo build --offline -q 2>/dev/null; b=$(ls target/debug/ | grep -v '\.d$' | while read f; do [ -f target/debug/$f ] && [ -x target/debug/$f ] && echo $f; done | head -1); timeout 300 ./target/debug/$b >/dev/null 2>&1; echo $? ); }
if [ -d $OUT/demo ]; then
  echo "demo with change: exit $(demo_run)"
  git checkout -q -- .
  echo "demo without change: exit $(demo_run)"
  rm -rf $OUT/demo/target $OUT/demo/work
else
  git checkout -q -- .
  echo "no demo dir"
fi
cd /verif
git -C /repo apply $OUT/patch.diff || { echo "patch does not apply to /repo"; exit 2; }
for c in $CHECKS; do
  out=$(./check $c quick 2>&1); rc=$?
  echo "check $c: rc=$rc $(echo "$out" | grep -c '^VIOLATION') violation lines"
  echo "$out" | grep '^VIOLATION' | cut -c1-330 | head -4
done
git -C /repo checkout -- .
echo "repo restored: $(git -C /repo status --short | wc -l) changed files"
