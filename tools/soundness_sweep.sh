#!/bin/bash
# Soundness on the unchanged tree: every check must exit 0 (no VIOLATION line) for many VERIF_SEEDs.
# usage: soundness_sweep.sh <tier> <first seed> <last seed> [props...]
# Evidence goes to a scratch VERIF_DIR so that committed evidence is not disturbed.
cd "$(dirname "$0")/.."
TIER=${1:-quick}; LO=${2:-2}; HI=${3:-21}; shift 3 2>/dev/null
PROPS=${@:-C05 C06 C07 C08 C15 C18 C19}
( cd sim && CARGO_NET_OFFLINE=true cargo build --release --offline 2>&1 | tail -1 )
D=$(mktemp -d /dev/shm/verif-sweep-XXXXXX); cp known_findings.json properties.jsonl "$D"/
bad=0; n=0
for s in $(seq $LO $HI); do
  for p in $PROPS; do
    out=$(VERIF_DIR=$D VERIF_SEED=$s ./sim/target/release/sim check $p $TIER 2>&1); rc=$?
    n=$((n+1))
    if [ $rc -ne 0 ] || echo "$out" | grep -q '^VIOLATION'; then bad=$((bad+1)); echo "ALARM seed=$s prop=$p rc=$rc"; echo "$out" | grep -E "VIOLATION|harness" | cut -c1-400; fi
  done
  echo "seed $s done ($bad alarms so far)"
done
echo "soundness sweep: $n runs, $bad alarms"
rm -rf "$D"
[ $bad -eq 0 ]
