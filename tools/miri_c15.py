#!/usr/bin/env python3
"""Thread dimension of C15: run /verif/miri_c15 (generated parsers built from the current /repo
tree by its build.rs) under Miri's seeded scheduler, merge the outcome into evidence/C15.json.
usage: miri_c15.py <tier> | miri_c15.py --replay <file>
exit 0 ok, 1 violation (VIOLATION line printed), 2 harness error"""
import json, os, re, subprocess, sys, time

VERIF = os.path.dirname(os.path.dirname(os.path.abspath(__file__)))
CRATE = os.path.join(VERIF, "miri_c15")

def run_miri(flags, threads, timeout):
    env = dict(os.environ)
    env["MIRIFLAGS"] = flags
    env["CARGO_NET_OFFLINE"] = "true"
    env.pop("RUST_BACKTRACE", None)
    p = subprocess.run(["cargo", "+nightly", "miri", "run", "--offline", "--", str(threads)], cwd=CRATE, env=env,
                       stdout=subprocess.PIPE, stderr=subprocess.STDOUT, text=True, timeout=timeout)
    return p.returncode, p.stdout

def main():
    if sys.argv[1] == "--replay":
        v = json.load(open(sys.argv[2]))
        rc, out = run_miri(f"-Zmiri-seed={v['miri_seed']} -Zmiri-preemption-rate={v['preemption_rate']}", v["threads"], 1800)
        if rc != 0:
            print(out[-3000:])
            print(f"VIOLATION property=C15 replay={sys.argv[2]} class={v['class']}")
            return 1
        print("replay: Miri run passed")
        return 0
    tier = sys.argv[1]
    seed = int(os.environ.get("VERIF_SEED", "1") or 1)
    n = int(os.environ.get("VERIF_MIRI_SEEDS", "64" if tier == "thorough" else "8"))
    # Miri seeds are derived from VERIF_SEED so that different VERIF_SEEDs explore different schedules
    lo = (seed * 1000) % 1000000
    t0 = time.time()
    results = []
    viol = []
    for threads, rate in ((3, 0.1), (4, 0.3)) if tier == "thorough" else ((3, 0.1),):
        try:
            rc, out = run_miri(f"-Zmiri-many-seeds={lo}..{lo + n} -Zmiri-preemption-rate={rate}", threads, 3600)
        except subprocess.TimeoutExpired:
            print("harness error: Miri timed out", file=sys.stderr)
            return 2
        oks = out.count("OK threads=")
        failing = sorted(set(int(x) for x in re.findall(r"FAILING SEED: (\d+)", out)))
        if rc != 0 and not failing:
            sys.stderr.write(out[-4000:])
            print("harness error: Miri did not run (build failure or missing sysroot)", file=sys.stderr)
            return 2
        results.append({"threads": threads, "preemption_rate": rate, "miri_seeds": [lo, lo + n], "schedules_passed": oks, "failing_seeds": failing})
        for fs in failing:
            cls = "miri-concurrent-first-use"
            m = re.search(r"(MISMATCH[^\n]*|error: Undefined Behavior[^\n]*|error: [^\n]*[Dd]ata race[^\n]*|panicked at [^\n]*\n[^\n]*|error: [^\n]*deadlock[^\n]*)", out)
            path = os.path.join(VERIF, "replays", f"C15-{cls}-{fs}-{threads}.json")
            os.makedirs(os.path.dirname(path), exist_ok=True)
            json.dump({"engine": "miri", "property": "C15", "class": cls, "miri_seed": fs, "threads": threads, "preemption_rate": rate,
                       "what": m.group(1) if m else "Miri reported a failure", "command": f"MIRIFLAGS='-Zmiri-seed={fs} -Zmiri-preemption-rate={rate}' cargo +nightly miri run --offline -- {threads}"}, open(path, "w"), indent=1)
            viol.append(f"VIOLATION property=C15 replay={path} class={cls} :: {m.group(1)[:300] if m else 'Miri failure'}")
    evp = os.path.join(VERIF, "evidence", "C15.json")
    ev = json.load(open(evp))
    ev["coverage"]["thread_dimension_miri"] = {
        "what": "threads call two generated parsers (generic parse tree; Grmtools actions with %parse-param) for the first time concurrently, real std::sync::OnceLock in the generated module, results compared with sequential calls and known answers; Miri also fails on data races / UB",
        "runs": results,
        "wall_s": round(time.time() - t0, 1),
        "real_components": ["lrpar::CTParserBuilder output (generated module, OnceLock, wincode deserialisation)", "lrpar runtime", "lrlex::LRNonStreamingLexer::new"],
        "stub_components": ["hand-written lexer (no regex at run time)", "recovery disabled (RecoveryKind::None): Miri's virtual clock would make the 500 ms budget a matter of interpreter speed"],
    }
    ev["coverage"]["evaluations"] += sum(r["schedules_passed"] + len(r["failing_seeds"]) for r in results)
    ev["wall_s"] = ev["wall_s"] + time.time() - t0
    ev["violations"] = ev.get("violations", 0) + len(viol)
    json.dump(ev, open(evp, "w"), indent=1)
    print(f"miri: {sum(r['schedules_passed'] for r in results)} schedules passed, {len(viol)} failing, {time.time()-t0:.1f}s")
    for l in viol:
        print(l)
    return 1 if viol else 0

sys.exit(main())
