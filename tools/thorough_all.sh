#!/bin/bash
# Run every thorough check once (scratch VERIF_DIR), report exit codes and wall time.
cd "$(dirname "$0")/.."
( cd sim && CARGO_NET_OFFLINE=true cargo build --release --offline 2>&1 | tail -1 )
D=$(mktemp -d /dev/shm/verif-thorough-XXXXXX); cp known_findings.json properties.jsonl "$D"/
for p in ${@:-C19 C18 C15 C07 C06}; do
  s=$(date +%s)
  out=$(VERIF_DIR=$D ./sim/target/release/sim check $p thorough 2>&1); rc=$?
  e=$(date +%s)
  echo "== $p thorough rc=$rc $((e-s))s"; echo "$out" | grep -E "^engine|VIOLATION|harness" | cut -c1-300
done
rm -rf "$D"
