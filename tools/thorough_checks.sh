#!/bin/bash
# Every thorough check through ./check (incl. Miri and gen_c08 parts), exit codes and wall time.
cd "$(dirname "$0")/.."
for p in ${@:-C19 C18 C15 C08 C05 C06 C07}; do
  s=$(date +%s); out=$(./check $p thorough 2>&1); rc=$?; e=$(date +%s)
  echo "== $p thorough rc=$rc $((e-s))s"; echo "$out" | grep -E "^engine|^miri|^gen_c08|VIOLATION|harness|KNOWN" | cut -c1-260
done
