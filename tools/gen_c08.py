#!/usr/bin/env python3
"""C08 over the generated-code path: build /verif/gen_c08 (its build.rs generates parsers with
recording actions from the current /repo tree), run it, merge the outcome into evidence/C08.json.
usage: gen_c08.py <tier> | gen_c08.py --replay <file>
exit 0 ok, 1 violation (VIOLATION line printed), 2 harness error"""
import json, os, subprocess, sys, time

VERIF = os.path.dirname(os.path.dirname(os.path.abspath(__file__)))
CRATE = os.path.join(VERIF, "gen_c08")
BIN = os.path.join(CRATE, "target/release/gen_c08")

def build():
    env = dict(os.environ, CARGO_NET_OFFLINE="true")
    env.pop("RUST_BACKTRACE", None)
    p = subprocess.run(["cargo", "build", "--release", "--offline"], cwd=CRATE, env=env, stdout=subprocess.PIPE, stderr=subprocess.STDOUT, text=True)
    if p.returncode != 0:
        sys.stderr.write(p.stdout[-4000:])
        print("harness error: gen_c08 does not build against /repo", file=sys.stderr)
        sys.exit(2)

def main():
    build()
    if sys.argv[1] == "--replay":
        return subprocess.run([BIN, "--replay", sys.argv[2]]).returncode
    tier = sys.argv[1]
    seed = int(os.environ.get("VERIF_SEED", "1") or 1)
    count = int(os.environ.get("VERIF_G_COUNT", "300000" if tier == "thorough" else "6000"))
    t0 = time.time()
    p = subprocess.run([BIN, str(seed), str(count)], stdout=subprocess.PIPE, stderr=subprocess.PIPE, text=True)
    if p.returncode != 0:
        sys.stderr.write(p.stderr[-3000:])
        print("harness error: gen_c08 failed to run", file=sys.stderr)
        return 2
    r = json.loads(p.stdout.strip().splitlines()[-1])
    lines = []
    for v in r["violations"]:
        path = os.path.join(VERIF, "replays", f"C08-generated-{v['class']}-{seed}.json")
        os.makedirs(os.path.dirname(path), exist_ok=True)
        json.dump({"engine": "G", "property": "C08", "class": v["class"], "seed": seed, "index": v["index"], "grammar_index": v["grammar_index"],
                   "occurrences_in_run": v["occurrences"], "detail": v["detail"], "scenario": v["scenario"]}, open(path, "w"), indent=1)
        rc = subprocess.run([BIN, "--replay", path], stdout=subprocess.PIPE, stderr=subprocess.PIPE).returncode
        if rc != 1:
            print(f"harness error: replay of {path} did not reproduce (exit {rc})", file=sys.stderr)
            return 2
        lines.append(f"VIOLATION property=C08 replay={path} class={v['class']} occurrences={v['occurrences']} (generated parser) :: {v['detail'][:300]}")
    evp = os.path.join(VERIF, "evidence", "C08.json")
    ev = json.load(open(evp))
    wall = time.time() - t0
    ev["coverage"]["generated_code_path"] = {
        "what": "parsers generated at compile time by CTParserBuilder (Grmtools kind, %parse-param, one recording action per production; build.rs of /verif/gen_c08, rebuilt from the current /repo tree) run as simulated processes under the same clock policies; the action history recorded through the generated wrappers is judged by the same oracles (exactly-once, order, argument kinds incl. Ok/Err classification of lexemes, parameter, spans, tree); inputs include real zero-width lexemes",
        "runs": r["evaluations"], "runs_with_parse_errors": r["with_parse_errors"], "inputs_with_zero_width_lexemes": r["inputs_with_zero_width_lexemes"],
        "action_calls_through_generated_wrappers": r["action_calls"], "grammars_compiled": r["grammars"], "runs_by_clock_policy": r["runs_by_clock_policy"],
        "distinct_nontrivial": r["distinct_nontrivial"], "known_findings_matched": r["known"], "sample": r["sample"], "wall_s": round(wall, 1),
        "real_components": ["lrpar::CTParserBuilder output: generated module, wrappers (gen_wrappers), run_parser glue, OnceLock'd table deserialisation", "lrpar runtime incl. CPCT+"],
        "stub_components": ["lexer: prepared lexemes handed to LRNonStreamingLexer::new", "eight fixed grammars (gen_c08/grammars.txt; one with an %avoid_insert token whose insertion cannot be avoided, one with a ()-typed rule that has an empty production, one with a rule whose alternatives are written in two places): generated code needs rustc, so the grammar population is small here"],
    }
    ev["coverage"]["evaluations"] += r["evaluations"]
    ev["wall_s"] += wall
    ev["violations"] = ev.get("violations", 0) + len(lines)
    json.dump(ev, open(evp, "w"), indent=1)
    print(f"gen_c08: {r['evaluations']} runs of generated parsers ({r['with_parse_errors']} with parse errors, {r['action_calls']} action calls), {len(lines)} violation classes, {wall:.1f}s")
    for l in lines:
        print(l)
    return 1 if lines else 0

sys.exit(main())
