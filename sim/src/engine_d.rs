//! Engine D (C15): the same sources built in several simulated processes (independent hash
//! seeds) must give the same grammar, state graph, state table, conflicts (as a set) and
//! byte-identical generated files.
use std::collections::BTreeMap;
use std::path::Path;
use std::process::{Command, Stdio};
use std::sync::Mutex;

use cfgrammar::{
    yacc::{YaccGrammar, YaccKind},
    Symbol, TIdx,
};
use lrtable::{from_yacc, Action, Minimiser, StIdx};
use serde::{Deserialize, Serialize};
use serde_json::{json, Value};

use crate::buildstep::{yacckind_of, BuildResult, BuildSpec, LexerOpts, ParserOpts};
use crate::common::*;
use crate::rng::{fnv, mix, Rng};
use crate::seams::{real_now_s, sim_process, SimOutcome};

const ENGINE_TAG: u64 = 0x44;

#[derive(Serialize, Deserialize, Clone, Debug, PartialEq)]
pub struct Alt {
    pub syms: Vec<String>,
    pub prec: Option<String>,
    pub action: Option<String>,
}
#[derive(Serialize, Deserialize, Clone, Debug, PartialEq)]
pub struct DRule {
    pub name: String,
    pub ty: Option<String>,
    pub alts: Vec<Alt>,
}
#[derive(Serialize, Deserialize, Clone, Debug, PartialEq)]
pub struct DGram {
    pub kind: String,
    pub decls: Vec<String>,
    pub rules: Vec<DRule>,
    pub programs: Option<String>,
    /// tokens as (name as written in the grammar, lexer regex)
    pub tokens: Vec<(String, String)>,
}

impl DGram {
    pub fn render(&self) -> String {
        let mut s = String::new();
        for d in &self.decls {
            s.push_str(d);
            s.push('\n');
        }
        s.push_str("%%\n");
        for r in &self.rules {
            s.push_str(&r.name);
            if let Some(t) = &r.ty {
                s.push_str(&format!(" -> {t}"));
            }
            s.push_str(": ");
            for (i, a) in r.alts.iter().enumerate() {
                if i > 0 {
                    s.push_str("\n  | ");
                }
                s.push_str(&a.syms.join(" "));
                if let Some(p) = &a.prec {
                    s.push_str(&format!(" %prec {p}"));
                }
                if let Some(ac) = &a.action {
                    s.push_str(&format!(" {{ {ac} }}"));
                }
            }
            s.push_str("\n  ;\n");
        }
        if let Some(p) = &self.programs {
            s.push_str("%%\n");
            s.push_str(p);
            s.push('\n');
        }
        s
    }
    pub fn render_lexer(&self) -> String {
        // grammars with an even number of tokens get a lexer with start states: exclusive and
        // inclusive ones, rules that belong to several of them, push / pop / replace operators
        let states = self.tokens.len() % 2 == 0;
        let mut s = String::from(if states { "%x SA SB SC\n%s SD SE\n%%\n" } else { "%%\n" });
        for (name, re) in &self.tokens {
            let n = name.trim_matches('\'').trim_matches('"');
            s.push_str(&format!("{re} \"{n}\"\n"));
        }
        if states {
            s.push_str("#a <+SA>;\n#b <+SB>;\n<SA,SB,SC,SD,SE>#c <SC>;\n<SC,SA,SE,SB>#d <-SC>;\n<SB,SE,SA,SD,SC>#e ;\n<SE,SD,SC,SB,SA,INITIAL>#f <+SD>;\n");
            s.push_str("<SA,SB,SC>[ \\t\\n]+ ;\n");
        }
        s.push_str("[ \\t\\n]+ ;\n");
        s
    }
}

#[derive(Serialize, Deserialize, Clone, Debug, PartialEq)]
pub struct DScenario {
    pub gram: DGram,
    pub seeds: Vec<u64>,
}

pub const KINDS: [&str; 5] = ["Original(NoAction)", "Original(GenericParseTree)", "Original(UserAction)", "Grmtools", "Eco"];

pub fn generate(r: &mut Rng, ct_capable: bool) -> DGram {
    let kind = if ct_capable { *r.pick(&KINDS[..4]) } else { *r.pick(&KINDS) };
    let with_actions = kind == "Original(UserAction)" || kind == "Grmtools";
    let ntok = 1 + r.below(7) as usize;
    let nrule = 1 + r.below(5) as usize;
    let mut toks: Vec<(String, String)> = vec![];
    for i in 0..ntok {
        if r.chance(45) {
            toks.push((format!("T{i}"), format!("u{i}")));
        } else {
            toks.push((format!("'q{i}'"), format!("q{i}")));
        }
    }
    let mut decls = vec![];
    if r.chance(70) || true {
        decls.push("%start R0".to_string());
    }
    let bare: Vec<&String> = toks.iter().map(|t| &t.0).filter(|n| !n.starts_with('\'')).collect();
    if !bare.is_empty() {
        decls.push(format!("%token {}", bare.iter().map(|s| s.as_str()).collect::<Vec<_>>().join(" ")));
    }
    let nimplicit = if kind == "Eco" { r.below(5) as usize } else { 0 };
    if nimplicit > 0 {
        decls.push(format!("%implicit_tokens {}", (0..nimplicit).map(|i| format!("W{i}")).collect::<Vec<_>>().join(" ")));
    }
    let mut prec_toks: Vec<String> = vec![];
    if r.chance(35) {
        for (n, _) in &toks {
            if r.chance(40) {
                decls.push(format!("{} {}", ["%left", "%right", "%nonassoc"][r.below(3) as usize], n));
                prec_toks.push(n.clone());
            }
        }
    }
    if r.chance(25) {
        let n = &r.pick(&toks).0;
        decls.push(format!("%epp {} \"pretty {}\"", n.trim_matches('\''), r.below(9)));
    }
    if r.chance(25) {
        let k = 1 + r.below(2);
        let names: Vec<String> = (0..k).map(|_| r.pick(&toks).0.clone()).collect();
        let mut names = names;
        names.dedup();
        decls.push(format!("%avoid_insert {}", names.join(" ")));
    }
    if r.chance(15) {
        decls.push(format!("%expect {}", r.below(4)));
    }
    if r.chance(10) {
        decls.push(format!("%expect-rr {}", r.below(3)));
    }
    if with_actions && r.chance(30) {
        decls.push("%parse-param p: u64".to_string());
    }
    if kind == "Original(UserAction)" {
        decls.push("%actiontype u64".to_string());
    }
    let mut rules = vec![];
    for ru in 0..nrule {
        let nalts = 1 + r.below(4) as usize;
        let mut alts = vec![];
        for _ in 0..nalts {
            let len = if r.chance(15) { 0 } else { 1 + r.below(4) as usize };
            let syms: Vec<String> = (0..len).map(|_| if r.chance(60) { r.pick(&toks).0.clone() } else { format!("R{}", r.below(nrule as u64)) }).collect();
            let prec = if !prec_toks.is_empty() && r.chance(12) { Some(r.pick(&prec_toks).clone()) } else { None };
            let action = if with_actions { Some(r.pick(&["0", "1 + 1", "$span.start() as u64", "{ let x = 2; x }"]).to_string()) } else { None };
            alts.push(Alt { syms, prec, action });
        }
        rules.push(DRule { name: format!("R{ru}"), ty: if kind == "Grmtools" { Some("u64".into()) } else { None }, alts });
    }
    let programs = if with_actions && r.chance(30) { Some("fn helper() -> u64 { 7 }".to_string()) } else { None };
    DGram { kind: kind.to_string(), decls, rules, programs, tokens: toks }
}

/// Canonical dump of every public query, by section. Sorted where (and only where) the
/// corresponding API is unordered by contract (hash-map views, the conflict lists).
pub fn dump(kind: &str, src: &str) -> BTreeMap<&'static str, String> {
    let mut out: BTreeMap<&'static str, String> = BTreeMap::new();
    let yk: YaccKind = yacckind_of(kind).expect("kind");
    let grm = match YaccGrammar::<u16>::new_with_storaget(yk, src) {
        Ok(g) => g,
        Err(es) => {
            let mut v: Vec<String> = es.iter().map(|e| e.to_string()).collect();
            v.sort();
            out.insert("build", format!("grammar error: {}", v.join(" / ")));
            return out;
        }
    };
    let mut g = String::new();
    g.push_str(&format!("rules {} prods {} tokens {} eof {} start_prod {} start_rule {} implicit_rule {:?}\n", grm.rules_len().0, grm.prods_len().0, grm.tokens_len().0, grm.eof_token_idx().0, grm.start_prod().0, grm.start_rule_idx().0, grm.implicit_rule().map(|r| r.0)));
    // (SentenceGenerator costs are left out on purpose: rule_min_costs does not terminate for
    // grammars with an unproductive rule; that is C17's business, not this property's.)
    for r in grm.iter_rules() {
        g.push_str(&format!("rule {} {:?} prods {:?} actiontype {:?}\n", r.0, grm.rule_name_str(r), grm.rule_to_prods(r).iter().map(|p| p.0).collect::<Vec<_>>(), grm.actiontype(r)));
    }
    for p in grm.iter_pidxs() {
        let syms: Vec<String> = grm
            .prod(p)
            .iter()
            .map(|s| match s {
                Symbol::Rule(r) => format!("R{}", r.0),
                Symbol::Token(t) => format!("T{}", t.0),
            })
            .collect();
        g.push_str(&format!("prod {} rule {} [{}] prec {:?} action {:?}\n", p.0, grm.prod_to_rule(p).0, syms.join(" "), grm.prod_precedence(p), if kind == "Eco" { &None } else { grm.action(p) }));
    }
    for t in grm.iter_tidxs() {
        g.push_str(&format!("token {} {:?} prec {:?} epp {:?} avoid_insert {}\n", t.0, grm.token_name(t), grm.token_precedence(t), grm.token_epp(t), grm.avoid_insert(t)));
    }
    let mut tm: Vec<(String, u16)> = grm.tokens_map().iter().map(|(k, v)| (k.to_string(), v.0)).collect();
    tm.sort();
    g.push_str(&format!("tokens_map {:?}\nexpect {:?} expectrr {:?} parse_param {:?} programs {:?}\n", tm, grm.expect(), grm.expectrr(), grm.parse_param(), grm.programs()));
    let firsts = grm.firsts();
    let follows = grm.follows();
    for r in grm.iter_rules() {
        let f: Vec<u16> = grm.iter_tidxs().filter(|t| firsts.is_set(r, *t)).map(|t| t.0).collect();
        let fo: Vec<u16> = grm.iter_tidxs().filter(|t| follows.is_set(r, *t)).map(|t| t.0).collect();
        g.push_str(&format!("first {} {:?} eps {} follow {:?}\n", r.0, f, firsts.is_epsilon_set(r), fo));
    }
    out.insert("grammar", g);
    let (sg, st) = match from_yacc(&grm, Minimiser::Pager) {
        Ok(x) => x,
        Err(e) => {
            out.insert("build", format!("table error: {e}"));
            return out;
        }
    };
    out.insert("build", "ok".into());
    let mut s = String::new();
    s.push_str(&format!("states {} start {} edges {}\n", sg.all_states_len().0, sg.start_state().0, sg.all_edges_len()));
    macro_rules! items {
        ($is:expr) => {{
            let mut v: Vec<String> = $is.items.iter().map(|((p, d), ctx)| format!("({},{}:{:?})", p.0, d.0, ctx.iter_set_bits(..).collect::<Vec<_>>())).collect();
            v.sort();
            v.join(" ")
        }};
    }
    for stidx in sg.iter_stidxs() {
        let mut e: Vec<String> = sg
            .edges(stidx)
            .iter()
            .map(|(sym, to)| match sym {
                Symbol::Rule(r) => format!("R{}->{}", r.0, to.0),
                Symbol::Token(t) => format!("T{}->{}", t.0, to.0),
            })
            .collect();
        e.sort();
        s.push_str(&format!("state {} core {} | closed {} | edges {}\n", stidx.0, items!(sg.core_state(stidx)), items!(sg.closed_state(stidx)), e.join(" ")));
    }
    out.insert("stategraph", s);
    let mut a = String::new();
    let nstates = sg.all_states_len().0;
    for i in 0..nstates {
        let stidx = StIdx(i);
        a.push_str(&format!("state {i}:"));
        for t in grm.iter_tidxs() {
            match st.action(stidx, t) {
                Action::Shift(x) => a.push_str(&format!(" {}:s{}", t.0, x.0)),
                Action::Reduce(p) => a.push_str(&format!(" {}:r{}", t.0, p.0)),
                Action::Accept => a.push_str(&format!(" {}:acc", t.0)),
                Action::Error => {}
            }
        }
        a.push_str(" | goto");
        for r in grm.iter_rules() {
            if let Some(g) = st.goto(stidx, r) {
                a.push_str(&format!(" {}:{}", r.0, g.0));
            }
        }
        a.push_str(&format!(" | actions {:?} shifts {:?} core_reduces {:?} reduce_only {}\n", st.state_actions(stidx).map(|t| t.0).collect::<Vec<_>>(), st.state_shifts(stidx).map(|t| t.0).collect::<Vec<_>>(), st.core_reduces(stidx).map(|p| p.0).collect::<Vec<_>>(), st.reduce_only_state(stidx)));
    }
    a.push_str(&format!("start {}\n", st.start_state().0));
    out.insert("statetable", a);
    let mut c = String::new();
    if let Some(cf) = st.conflicts() {
        let mut rr: Vec<(u16, u16, u16, u16)> = cf.rr_conflicts().map(|(t, p1, p2, s)| (t.0, p1.0, p2.0, s.0)).collect();
        let mut sr: Vec<(u16, u16, u16)> = cf.sr_conflicts().map(|(t, p, s)| (t.0, p.0, s.0)).collect();
        rr.sort();
        sr.sort();
        c.push_str(&format!("rr {} {:?}\nsr {} {:?}\n", cf.rr_len(), rr, cf.sr_len(), sr));
    } else {
        c.push_str("none\n");
    }
    out.insert("conflicts", c);
    let _ = TIdx(0u16);
    out
}

#[derive(Clone, Debug, Serialize, Deserialize)]
pub struct DFinding {
    pub class: String,
    pub detail: String,
    pub seed_a: u64,
    pub seed_b: u64,
}

fn first_diff(a: &str, b: &str) -> String {
    for (la, lb) in a.lines().zip(b.lines()) {
        if la != lb {
            return format!("`{}` vs `{}`", &la[..la.len().min(200)], &lb[..lb.len().min(200)]);
        }
    }
    format!("lengths {} vs {}", a.len(), b.len())
}

/// In-process part: one simulated process per seed, digest comparison.
pub fn execute_digests(sc: &DScenario) -> (Vec<DFinding>, u64, bool) {
    let src = sc.gram.render();
    let mut first: Option<(u64, BTreeMap<&'static str, String>)> = None;
    let mut findings = vec![];
    let mut lh = fnv(src.as_bytes());
    let mut built_ok = false;
    for &seed in &sc.seeds {
        // One simulated process at a time: concurrent users of the regex crate's scratch pools make
        // a thread build a fresh cache now and then, which advances its RandomState counter - the
        // hash keys a grammar is built under would then depend on what other threads happen to be
        // doing, and a replay (which is sequential) could not reproduce them.
        static ONE_AT_A_TIME: Mutex<()> = Mutex::new(());
        let guard = ONE_AT_A_TIME.lock().unwrap_or_else(|e| e.into_inner());
        let (r, _) = sim_process(seed, None, || {
            let d = dump(&sc.gram.kind, &src);
            // pins down the hash keys this simulated process ended up with (see engine_r::MapRun)
            let probe: Vec<u32> = (0..16u32).collect::<std::collections::HashSet<u32>>().into_iter().collect();
            (d, fnv(&probe.iter().flat_map(|x| x.to_le_bytes()).collect::<Vec<u8>>()))
        });
        drop(guard);
        let (r, probe) = match r {
            SimOutcome::Ok((d, p)) => (SimOutcome::Ok(d), p),
            SimOutcome::Panic(m) => (SimOutcome::Panic(m), 0),
        };
        lh = crate::rng::fnv_add(lh, &probe.to_le_bytes());
        let d = match r {
            SimOutcome::Ok(d) => d,
            SimOutcome::Panic(m) => {
                let mut b = BTreeMap::new();
                b.insert("build", format!("panic: {m}"));
                b
            }
        };
        built_ok |= d.get("build").map_or(false, |b| b == "ok");
        if std::env::var("VERIF_D_DEBUG2").is_ok() {
            eprintln!("seed {seed}: {:?}", d.iter().map(|(k, v)| (*k, format!("{:x}", fnv(v.as_bytes())))).collect::<Vec<_>>());
        }
        for (k, v) in &d {
            lh = crate::rng::fnv_add(lh, k.as_bytes());
            lh = crate::rng::fnv_add(lh, &fnv(v.as_bytes()).to_le_bytes());
        }
        match &first {
            None => first = Some((seed, d)),
            Some((s0, d0)) => {
                let keys: std::collections::BTreeSet<&&'static str> = d0.keys().chain(d.keys()).collect();
                for k in keys {
                    let (a, b) = (d0.get(*k), d.get(*k));
                    if a != b {
                        let detail = match (a, b) {
                            (Some(a), Some(b)) => first_diff(a, b),
                            _ => "section present under one seed only".into(),
                        };
                        if !findings.iter().any(|f: &DFinding| f.class == format!("differs-{k}")) {
                            findings.push(DFinding { class: format!("differs-{k}"), detail: format!("hash seeds {s0} and {seed}: {detail}"), seed_a: *s0, seed_b: seed });
                        }
                    }
                }
            }
        }
    }
    (findings, lh, built_ok)
}

// ---- compile-time builders as child processes ------------------------------------------------

/// Returns (exit code or None if killed by a signal, signal if any, result).
pub fn run_build_child(exe: &Path, spec: &BuildSpec, scratch: &Path, tag: &str) -> (Option<i32>, Option<BuildResult>) {
    let (c, _sig, r) = run_build_child_sig(exe, spec, scratch, tag);
    (c, r)
}

pub fn run_build_child_sig(exe: &Path, spec: &BuildSpec, scratch: &Path, tag: &str) -> (Option<i32>, Option<i32>, Option<BuildResult>) {
    use std::os::unix::process::ExitStatusExt;
    let sp = scratch.join(format!("spec-{tag}.json"));
    std::fs::write(&sp, serde_json::to_string(spec).unwrap()).expect("write spec");
    let out = Command::new(exe).args(["build-step", sp.to_str().unwrap(), "-"]).stdin(Stdio::null()).stdout(Stdio::piped()).stderr(Stdio::null()).output();
    let _ = std::fs::remove_file(&sp);
    match out {
        Ok(o) => {
            let text = String::from_utf8_lossy(&o.stdout);
            let mut res = text.lines().rev().find_map(|l| l.strip_prefix("BUILD-RESULT ")).and_then(|j| serde_json::from_str::<BuildResult>(j).ok());
            if let Some(r) = res.as_mut() {
                r.rerun_if_changed = text.lines().filter_map(|l| l.strip_prefix("cargo:rerun-if-changed=")).map(|s| s.to_string()).collect();
            }
            (o.status.code(), o.status.signal(), res)
        }
        Err(_) => (None, None, None),
    }
}

/// One grammar built by `seeds.len()` child processes into separate output directories.
pub fn execute_ct(exe: &Path, sc: &DScenario, dir: &Path) -> Vec<DFinding> {
    let mut findings = vec![];
    let src_dir = dir.join("src");
    let _ = std::fs::create_dir_all(&src_dir);
    let gy = src_dir.join("g.y");
    let gl = src_dir.join("g.l");
    std::fs::write(&gy, sc.gram.render()).expect("write g.y");
    std::fs::write(&gl, sc.gram.render_lexer()).expect("write g.l");
    let mut first: Option<(u64, Vec<(String, Option<Vec<u8>>)>, bool)> = None;
    // probe text for the run-time lexer: every token's text in lower and in upper case
    let probe: String = sc.gram.tokens.iter().map(|(_, re)| format!("{re} {} ", re.to_uppercase())).collect();
    for (si, &seed) in sc.seeds.iter().enumerate() {
        // same bytes, another modification time: every build process sees freshly "checked out"
        // sources (simulated stamps, one hour apart)
        for f in [&gy, &gl] {
            let _ = filetime::set_file_mtime(f, filetime::FileTime::from_unix_time(1_700_000_000 + 3600 * si as i64, 123_456_789 * (si as u32 % 8)));
        }
        let out = dir.join(format!("out-{seed}"));
        let _ = std::fs::create_dir_all(&out);
        let spec = BuildSpec {
            hash_seed: seed,
            grammar_path: gy.to_str().unwrap().into(),
            lexer_path: gl.to_str().unwrap().into(),
            parser_out: out.join("g.y.rs").to_str().unwrap().into(),
            lexer_out: out.join("g.l.rs").to_str().unwrap().into(),
            parser: ParserOpts { yacckind: Some(sc.gram.kind.clone()), error_on_conflicts: Some(false), warnings_are_errors: Some(false), ..Default::default() },
            lexer: LexerOpts { allow_missing_terms_in_lexer: Some(true), allow_missing_tokens_in_parser: Some(true), ..Default::default() },
            flow: "combined".into(),
            token_map_dir: Some(out.to_str().unwrap().into()),
            fsize_limit: None,
            fsize_mode: None,
            prelude: vec![],
            lex_probe: Some(probe.clone()),
            src_dir_mode: None,
            // every build process runs in another working directory
            // (an ancestor of the sources, their own directory, an unrelated one)
            cwd: Some(match si % 3 { 0 => dir.to_path_buf(), 1 => src_dir.clone(), _ => dir.join("elsewhere/deep") }.to_str().unwrap().into()),
        };
        // Every other process builds a sibling first, as a build.rs with several grammars does:
        // the same sources with another storage type and a case-insensitive lexer, to other
        // paths. The build proper (and the lexer it yields at run time) must not notice.
        let spec = if si % 2 == 1 {
            let mut pre = spec.clone();
            pre.parser_out = out.join("pre.y.rs").to_str().unwrap().into();
            pre.lexer_out = out.join("pre.l.rs").to_str().unwrap().into();
            pre.parser.storaget = Some("u16".into());
            pre.lexer.case_insensitive = Some(true);
            pre.token_map_dir = None;
            BuildSpec { prelude: vec![pre], ..spec }
        } else {
            spec
        };
        let (code, res) = run_build_child(exe, &spec, dir, &seed.to_string());
        let ok = code == Some(0) && res.as_ref().map_or(false, |r| r.ok);
        if std::env::var("VERIF_D_DEBUG").is_ok() && !ok {
            eprintln!("ct build failed: code {:?} {:?}", code, res.as_ref().map(|r| r.error.chars().take(300).collect::<String>()));
        }
        let mut files: Vec<(String, Option<Vec<u8>>)> = ["g.y.rs", "g.l.rs", "token_map.rs"].iter().map(|f| (f.to_string(), std::fs::read(out.join(f)).ok())).collect();
        files.push(("runtime-lexer-probe".into(), res.as_ref().and_then(|r| r.lex_dump.clone()).map(|s| s.into_bytes())));
        match &first {
            None => first = Some((seed, files, ok)),
            Some((s0, f0, ok0)) => {
                if *ok0 != ok {
                    findings.push(DFinding { class: "ct-outcome-differs".into(), detail: format!("build succeeded under hash seed {}: {}, under {}: {} ({:?})", s0, ok0, seed, ok, res.as_ref().map(|r| r.error.clone())), seed_a: *s0, seed_b: seed });
                }
                for ((n, a), (_, b)) in f0.iter().zip(&files) {
                    if a != b {
                        let detail = match (a, b) {
                            (Some(a), Some(b)) => first_diff(&String::from_utf8_lossy(a), &String::from_utf8_lossy(b)),
                            _ => "file present under one seed only".into(),
                        };
                        if !findings.iter().any(|f| f.class == format!("ct-bytes-differ-{n}")) {
                            findings.push(DFinding { class: format!("ct-bytes-differ-{n}"), detail: format!("{n} under hash seeds {s0} and {seed}: {detail}"), seed_a: *s0, seed_b: seed });
                        }
                    }
                }
            }
        }
    }
    findings
}

fn shrink(sc: &DScenario, class: &str, fails: &dyn Fn(&DScenario) -> bool) -> DScenario {
    let _ = class;
    let mut cur = sc.clone();
    // two seeds suffice
    loop {
        let mut progress = false;
        if cur.seeds.len() > 2 {
            for i in (0..cur.seeds.len()).rev() {
                if cur.seeds.len() <= 2 {
                    break;
                }
                let mut c = cur.clone();
                c.seeds.remove(i);
                if fails(&c) {
                    cur = c;
                    progress = true;
                }
            }
        }
        for i in (1..cur.gram.decls.len()).rev() {
            let mut c = cur.clone();
            c.gram.decls.remove(i);
            if fails(&c) {
                cur = c;
                progress = true;
            }
        }
        for ri in (1..cur.gram.rules.len()).rev() {
            let mut c = cur.clone();
            c.gram.rules.remove(ri);
            if fails(&c) {
                cur = c;
                progress = true;
            }
        }
        for ri in 0..cur.gram.rules.len() {
            for ai in (0..cur.gram.rules[ri].alts.len()).rev() {
                if cur.gram.rules[ri].alts.len() > 1 {
                    let mut c = cur.clone();
                    c.gram.rules[ri].alts.remove(ai);
                    if fails(&c) {
                        cur = c;
                        progress = true;
                        continue;
                    }
                }
                if ai < cur.gram.rules[ri].alts.len() {
                    for si in (0..cur.gram.rules[ri].alts[ai].syms.len()).rev() {
                        let mut c = cur.clone();
                        c.gram.rules[ri].alts[ai].syms.remove(si);
                        if fails(&c) {
                            cur = c;
                            progress = true;
                        }
                    }
                }
            }
        }
        if !progress {
            break;
        }
    }
    cur
}

pub fn replay_main(v: &Value, path: &str, quiet: bool) -> i32 {
    let sc: DScenario = match serde_json::from_value(v["scenario"].clone()) {
        Ok(s) => s,
        Err(e) => {
            eprintln!("harness error: {e}");
            return EXIT_HARNESS;
        }
    };
    if quiet { crate::common::quiet_panics(); }
    let class = v["class"].as_str().unwrap_or("");
    let findings = if class.starts_with("ct-") {
        let scratch = scratch_base();
        let f = execute_ct(&std::env::current_exe().unwrap(), &sc, &scratch);
        let _ = std::fs::remove_dir_all(&scratch);
        f
    } else {
        execute_digests(&sc).0
    };
    let mut hit = false;
    for f in &findings {
        if !quiet {
            println!("finding: class={} :: {}", f.class, f.detail);
        }
        if f.class == class {
            hit = true;
        }
    }
    if hit {
        println!("VIOLATION property=C15 replay={path} class={class}");
        EXIT_VIOLATION
    } else {
        println!("replay: class {class} did not reproduce");
        EXIT_OK
    }
}

pub fn check_main(tier: &str) -> i32 {
    let t0 = real_now_s();
    let vdir = verif_dir();
    let seed = seed_from_env();
    let thorough = tier == "thorough";
    let count: u64 = std::env::var("VERIF_D_COUNT").ok().and_then(|s| s.parse().ok()).unwrap_or(if thorough { 60_000 } else { 6_000 });
    let nseeds = if thorough { 12 } else { 4 };
    let ct_count: u64 = std::env::var("VERIF_D_CT").ok().and_then(|s| s.parse().ok()).unwrap_or(if thorough { 600 } else { 64 });
    let ct_seeds = if thorough { 5 } else { 3 };
    let w = ncpu() as u64;
    crate::common::quiet_panics();
    println!("engine D: property=C15 tier={tier} VERIF_SEED={seed} grammars={count}x{nseeds} seeds, compile-time builds={ct_count}x{ct_seeds} processes, threads={w}");
    struct Tot {
        evals: u64,
        built_ok: u64,
        eco_multi_implicit: u64,
        by_kind: BTreeMap<String, u64>,
        viol: BTreeMap<String, (u64, u64, DScenario, String)>,
        digests: Vec<u64>,
        loghash: u64,
        samples: Vec<Value>,
        ct_builds: u64,
        ct_ok: u64,
    }
    let tot = Mutex::new(Tot { evals: 0, built_ok: 0, eco_multi_implicit: 0, by_kind: BTreeMap::new(), viol: BTreeMap::new(), digests: vec![], loghash: 0, samples: vec![], ct_builds: 0, ct_ok: 0 });
    let scratch = scratch_base();
    let exe = std::env::current_exe().unwrap();
    // probe: how many distinct iteration orders do the seeds actually realise?
    let mut orders = std::collections::BTreeSet::new();
    for s in 0..16u64 {
        if let SimOutcome::Ok(o) = sim_process(mix(seed, 77, s), None, || {
            let hs: std::collections::HashSet<u32> = (0..24).collect();
            hs.into_iter().collect::<Vec<u32>>()
        })
        .0
        {
            orders.insert(o);
        }
    }
    std::thread::scope(|s| {
        for o in 0..w {
            let tot = &tot;
            let scratch = &scratch;
            let exe = &exe;
            s.spawn(move || {
                let mut i = o;
                while i < count + ct_count {
                    let mut r = Rng::new(mix(seed, ENGINE_TAG, i));
                    let is_ct = i >= count;
                    let gram = generate(&mut r, is_ct);
                    let seeds: Vec<u64> = (0..if is_ct { ct_seeds } else { nseeds }).map(|_| r.next()).collect();
                    let sc = DScenario { gram, seeds };
                    let (findings, lh, ok) = if is_ct {
                        let d = scratch.join(format!("ct-{i}"));
                        let f = execute_ct(exe, &sc, &d);
                        let ok = d.join(format!("out-{}", sc.seeds[0])).join("g.y.rs").exists();
                        let _ = std::fs::remove_dir_all(&d);
                        (f, 0, ok)
                    } else {
                        execute_digests(&sc)
                    };
                    if std::env::var("VERIF_D_DEBUG").is_ok() && !ok && (i % 16 < 2 || sc.gram.kind == "Eco") {
                        let why = if is_ct { String::from("(ct)") } else { std::panic::catch_unwind(|| dump(&sc.gram.kind, &sc.gram.render()).get("build").cloned().unwrap_or_default()).unwrap_or_else(|e| format!("PANIC {:?}", e.downcast_ref::<String>())) };
                        eprintln!("--- index {i} kind {} failed: {why}\n{}", sc.gram.kind, sc.gram.render());
                    }
                    let mut t = tot.lock().unwrap();
                    t.evals += 1;
                    if is_ct {
                        t.ct_builds += sc.seeds.len() as u64;
                        if ok {
                            t.ct_ok += 1;
                        }
                    } else if ok {
                        t.built_ok += 1;
                        t.digests.push(fnv(sc.gram.render().as_bytes()));
                        *t.by_kind.entry(sc.gram.kind.clone()).or_insert(0) += 1;
                        if sc.gram.kind == "Eco" && sc.gram.decls.iter().any(|d| d.starts_with("%implicit_tokens") && d.split_whitespace().count() >= 3) {
                            t.eco_multi_implicit += 1;
                        }
                    }
                    t.loghash = t.loghash.wrapping_add(mix(i, lh, 0));
                    if t.samples.len() < 2 && ok && i % 7 == 0 {
                        t.samples.push(json!({"index": i, "kind": sc.gram.kind, "grammar": sc.gram.render(), "hash_seeds": sc.seeds, "compile_time_build": is_ct}));
                    }
                    for f in findings {
                        let e = t.viol.entry(f.class.clone()).or_insert((0, i, sc.clone(), f.detail.clone()));
                        e.0 += 1;
                        if i < e.1 {
                            *e = (e.0, i, sc.clone(), f.detail.clone());
                        }
                    }
                    drop(t);
                    i += w;
                }
            });
        }
    });
    let mut t = tot.into_inner().unwrap();
    let mut exit = EXIT_OK;
    let mut nviol = 0;
    let mut lines = vec![];
    for (class, (cnt, idx, sc, detail)) in &t.viol {
        nviol += cnt;
        exit = EXIT_VIOLATION;
        let small = if class.starts_with("ct-") {
            let d = scratch.join("shrink");
            let fails = |c: &DScenario| {
                let _ = std::fs::remove_dir_all(&d);
                execute_ct(&exe, c, &d).iter().any(|f| f.class == *class)
            };
            shrink(sc, class, &fails)
        } else {
            let fails = |c: &DScenario| {
                let f = execute_digests(c).0;
                if std::env::var("VERIF_D_DEBUG").is_ok() {
                    eprintln!("shrink probe: {} findings {:?}", f.len(), f.iter().map(|x| format!("{} {}", x.class, x.detail.chars().take(150).collect::<String>())).collect::<Vec<_>>());
                }
                f.iter().any(|f| f.class == *class)
            };
            shrink(sc, class, &fails)
        };
        if std::env::var("VERIF_D_DEBUG").is_ok() {
            for _ in 0..3 {
                eprintln!("final small: {:?}", execute_digests(&small).0.iter().map(|f| f.class.clone()).collect::<Vec<_>>());
            }
            eprintln!("small = {}", serde_json::to_string(&small).unwrap());
        }
        let replay = json!({"engine": "D", "property": "C15", "class": class, "seed": seed, "index": idx, "occurrences_in_run": cnt, "detail": detail, "grammar_text": small.gram.render(), "scenario": small});
        let path = write_replay(&vdir, &format!("C15-{}-{}.json", sanitize(class), seed), &replay).unwrap();
        let st = crate::driver_r::run_guarded(&exe, &["replay", path.to_str().unwrap(), "--quiet"], 120.0);
        if st != Some(1) {
            eprintln!("harness error: replay of {} did not reproduce (status {:?})", path.display(), st);
            let _ = std::fs::remove_dir_all(&scratch);
            return EXIT_HARNESS;
        }
        lines.push(format!("VIOLATION property=C15 replay={} class={class} occurrences={cnt} :: {detail}", path.display()));
    }
    let _ = std::fs::remove_dir_all(&scratch);
    // Thread dimension (Miri): run by the `check` script, which merges its result into the
    // evidence file; see miri_c15/.
    t.digests.sort_unstable();
    t.digests.dedup();
    let wall = real_now_s() - t0;
    let mut extra: BTreeMap<String, Value> = BTreeMap::new();
    extra.insert("simulated_processes".into(), json!(count * nseeds as u64 + t.ct_builds));
    extra.insert("runs_per_hour".into(), json!(((count * nseeds as u64 + t.ct_builds) as f64 / wall * 3600.0) as u64));
    extra.insert("grammars_built_ok_by_kind".into(), json!(t.by_kind));
    extra.insert("eco_grammars_with_2plus_implicit_tokens".into(), json!(t.eco_multi_implicit));
    extra.insert("compile_time_build_processes".into(), json!(t.ct_builds));
    extra.insert("compile_time_grammars_generating_code".into(), json!(t.ct_ok));
    extra.insert("distinct_hashset_iteration_orders_realised_by_16_probe_seeds".into(), json!(orders.len()));
    extra.insert("fault_kinds_fired".into(), json!({"per_process_hash_seed_change": count * (nseeds as u64 - 1) + t.ct_builds.saturating_sub(ct_count)}));
    extra.insert("event_log_hash".into(), json!(format!("{:016x}", t.loghash)));
    extra.insert("real_components".into(), json!(["cfgrammar::yacc (parser, ast, grammar, firsts, follows)", "lrtable (itemset, pager, stategraph, statetable)", "lrpar::CTParserBuilder, lrlex::CTLexerBuilder, lrlex::CTTokenMapBuilder (child processes)", "lrlex::LRNonStreamingLexerDef::new_with_options + lexer (in the build child, after the builds)"]));
    extra.insert("stub_components".into(), json!(["getrandom: SplitMix64 stream per simulated process (fresh thread or child process main thread)"]));
    let ev = Evidence {
        property: "C15".into(),
        tier: tier.into(),
        seed,
        evaluations: count + ct_count,
        distinct_nontrivial: t.digests.len() as u64,
        rule: format!("grammar i of stream VERIF_SEED (all yacc kinds incl. Eco with 0-4 implicit tokens; random %token/%left/%right/%nonassoc/%epp/%avoid_insert/%expect/%parse-param/actions) built in {nseeds} simulated processes with independent hash seeds, every public query of YaccGrammar/StateGraph/StateTable dumped and compared (conflicts as sets); {ct_count} further grammars run through the real compile-time builders in {ct_seeds} child processes each (sources re-stamped with another modification time per process, each process in another working directory; every other process first builds a sibling - same sources, another storage type, case-insensitive lexer - to other paths, as a build.rs with several grammars does) and the generated files compared byte for byte, together with what the lexer created at run time from the same source and flags yields on a probe text. Non-trivial = the grammar builds (table constructed); distinct = distinct grammar text."),
        samples: t.samples.clone(),
        extra,
        assumptions: vec!["std::collections::HashMap/HashSet obtain their keys through the libc symbol getrandom (self-tested)".into(), "generated files are compared without masking: all children share one lrpar/lrlex build, so the embedded build timestamp is identical".into()],
        wall_s: wall,
        violations: nviol,
    };
    if let Err(e) = ev.write(&vdir) {
        eprintln!("harness error: evidence: {e}");
        return EXIT_HARNESS;
    }
    println!("engine D: {} grammars x {nseeds} seeds ({} built), {} compile-time build processes ({} grammars generated code), {:.1}s, loghash {:016x}", count, t.built_ok, t.ct_builds, t.ct_ok, wall, t.loghash);
    for l in lines {
        println!("{l}");
    }
    exit
}
