//! Harness-owned reference pieces for engine R. They use only `StateTable::action/goto` and
//! `YaccGrammar::prod/prod_to_rule` -- nothing from lrpar.
//!
//! * `Ctx::step`: one LR move (reductions under a lookahead, then at most one shift).
//! * `parse_tree`: a plain LR parse of an (edited) token list into a tree.
//! * `ref_search`: exhaustive search over the documented edit moves (insert a token, delete the
//!   next lexeme, shift the next lexeme; reductions are part of the move they prepare) by
//!   increasing cost, nodes merged by (stack, position, ends-in-delete, trailing shifts),
//!   unfolded to explicit sequences under a cap. Every sequence it yields is, by construction,
//!   what a plain LR parse of the edited input does.
use std::cell::Cell;
use std::collections::{BTreeMap, BTreeSet};

use cfgrammar::{yacc::YaccGrammar, TIdx};
use lrtable::{Action, StIdx, StateTable};

pub const RED_CAP: usize = 5000;

#[derive(Clone, Copy, PartialEq, Eq, PartialOrd, Ord, Debug, serde::Serialize, serde::Deserialize)]
pub enum Rp {
    Ins(u16),
    Del,
    Sh,
}

/// Hash-consed persistent stacks of states: equality is id equality.
pub struct Stacks {
    nodes: Vec<(u32, u16)>, // (parent, state); id 0 is the empty stack
    intern: BTreeMap<(u32, u16), u32>,
}
impl Stacks {
    pub fn new() -> Self {
        Stacks { nodes: vec![(0, 0)], intern: BTreeMap::new() }
    }
    pub fn push(&mut self, parent: u32, st: u16) -> u32 {
        if let Some(id) = self.intern.get(&(parent, st)) {
            return *id;
        }
        let id = self.nodes.len() as u32;
        self.nodes.push((parent, st));
        self.intern.insert((parent, st), id);
        id
    }
    pub fn top(&self, id: u32) -> u16 {
        self.nodes[id as usize].1
    }
    pub fn parent(&self, id: u32) -> u32 {
        self.nodes[id as usize].0
    }
    pub fn from_slice(&mut self, s: &[u16]) -> u32 {
        let mut id = 0;
        for x in s {
            id = self.push(id, *x);
        }
        id
    }
    pub fn to_vec(&self, mut id: u32) -> Vec<u16> {
        let mut v = vec![];
        while id != 0 {
            v.push(self.top(id));
            id = self.parent(id);
        }
        v.reverse();
        v
    }
}

pub struct Ctx<'a> {
    pub grm: &'a YaccGrammar<u16>,
    pub st: &'a StateTable<u16>,
    pub toks: &'a [u16],
    pub costs: &'a [u8],
    pub eof: u16,
    pub ntok: u16,
    pub looped: Cell<bool>,
    /// consecutive reductions under one lookahead beyond which the table is taken to loop: a
    /// legitimate chain is bounded by (stack depth) x (number of rules), and the stack is at most
    /// as deep as the input (plus what a repair inserts) is long
    pub red_cap: usize,
}

pub struct StepRes {
    pub shifted: bool,
    pub accept: bool,
    pub stack: u32,
}

impl<'a> Ctx<'a> {
    pub fn new(grm: &'a YaccGrammar<u16>, st: &'a StateTable<u16>, toks: &'a [u16], costs: &'a [u8]) -> Self {
        Ctx {
            grm,
            st,
            toks,
            costs,
            eof: grm.eof_token_idx().0,
            ntok: grm.tokens_len().0,
            looped: Cell::new(false),
            red_cap: RED_CAP + (toks.len() + 64) * (usize::from(grm.rules_len()) + 1),
        }
    }
    pub fn la(&self, i: usize) -> u16 {
        if i < self.toks.len() {
            self.toks[i]
        } else {
            self.eof
        }
    }
    /// Reductions demanded by lookahead `t`, then at most one shift.
    pub fn step(&self, ss: &mut Stacks, stack: u32, t: u16) -> StepRes {
        let mut s = stack;
        let mut nred = 0usize;
        loop {
            match self.st.action(StIdx(ss.top(s)), TIdx(t)) {
                Action::Reduce(p) => {
                    nred += 1;
                    if nred > self.red_cap {
                        self.looped.set(true);
                        return StepRes { shifted: false, accept: false, stack: s };
                    }
                    let n = self.grm.prod(p).len();
                    for _ in 0..n {
                        s = ss.parent(s);
                    }
                    let g = self.st.goto(StIdx(ss.top(s)), self.grm.prod_to_rule(p)).expect("goto");
                    s = ss.push(s, g.0);
                }
                Action::Shift(x) => {
                    return StepRes { shifted: true, accept: false, stack: ss.push(s, x.0) };
                }
                Action::Accept => return StepRes { shifted: false, accept: true, stack: s },
                Action::Error => return StepRes { shifted: false, accept: false, stack: s },
            }
        }
    }
    /// Only the reductions demanded by lookahead `t` (no shift).
    pub fn reduce_only(&self, ss: &mut Stacks, stack: u32, t: u16) -> u32 {
        let mut s = stack;
        let mut nred = 0usize;
        loop {
            match self.st.action(StIdx(ss.top(s)), TIdx(t)) {
                Action::Reduce(p) => {
                    nred += 1;
                    if nred > self.red_cap {
                        self.looped.set(true);
                        return s;
                    }
                    let n = self.grm.prod(p).len();
                    for _ in 0..n {
                        s = ss.parent(s);
                    }
                    let g = self.st.goto(StIdx(ss.top(s)), self.grm.prod_to_rule(p)).expect("goto");
                    s = ss.push(s, g.0);
                }
                _ => return s,
            }
        }
    }
    /// Plain parse from (stack, i) without recovery; returns the lookahead index reached
    /// (stops at `cap`), the stack and whether it accepted.
    pub fn parse_from(&self, ss: &mut Stacks, mut stack: u32, mut i: usize, cap: usize) -> (usize, u32, bool) {
        while i != cap && i <= self.toks.len() {
            let r = self.step(ss, stack, self.la(i));
            stack = r.stack;
            if r.shifted {
                i += 1;
            } else {
                return (i, stack, r.accept);
            }
        }
        (i, stack, false)
    }
    /// Like `step`, additionally maintaining the forest of subtrees that mirrors the stack.
    /// `lex` is the lexeme pushed if the move ends in a shift.
    pub fn step_tree(&self, ss: &mut Stacks, stack: u32, t: u16, lex: Option<InTok>, forest: &mut Vec<Tree>) -> StepRes {
        let mut s = stack;
        let mut nred = 0usize;
        loop {
            match self.st.action(StIdx(ss.top(s)), TIdx(t)) {
                Action::Reduce(p) => {
                    nred += 1;
                    if nred > self.red_cap {
                        self.looped.set(true);
                        return StepRes { shifted: false, accept: false, stack: s };
                    }
                    let n = self.grm.prod(p).len();
                    for _ in 0..n {
                        s = ss.parent(s);
                    }
                    let kids = forest.split_off(forest.len() - n);
                    let ridx = self.grm.prod_to_rule(p);
                    let g = self.st.goto(StIdx(ss.top(s)), ridx).expect("goto");
                    s = ss.push(s, g.0);
                    forest.push(Tree::Nonterm { ridx: ridx.0, pidx: Some(p.0), kids });
                }
                Action::Shift(x) => {
                    let l = lex.expect("shift without a lexeme");
                    forest.push(Tree::Term { tok: l.tok, start: l.start, len: l.len, faulty: l.faulty });
                    return StepRes { shifted: true, accept: false, stack: ss.push(s, x.0) };
                }
                Action::Accept => return StepRes { shifted: false, accept: true, stack: s },
                Action::Error => return StepRes { shifted: false, accept: false, stack: s },
            }
        }
    }
    /// Plain parse from (stack, i) building the forest; real lexemes come from `lexemes`.
    pub fn parse_from_tree(&self, ss: &mut Stacks, mut stack: u32, mut i: usize, lexemes: &[InTok], forest: &mut Vec<Tree>) -> (usize, u32, bool) {
        while i <= self.toks.len() {
            let r = self.step_tree(ss, stack, self.la(i), lexemes.get(i).copied(), forest);
            stack = r.stack;
            if r.shifted {
                i += 1;
            } else {
                return (i, stack, r.accept);
            }
        }
        (i, stack, false)
    }
    pub fn cost_of(&self, seq: &[Rp], mut la: usize) -> u32 {
        let mut c = 0u32;
        for r in seq {
            match r {
                Rp::Ins(t) => c += self.costs[*t as usize] as u32,
                Rp::Del => {
                    c += self.costs[self.la(la) as usize] as u32;
                    la += 1;
                }
                Rp::Sh => la += 1,
            }
        }
        c
    }
    /// Replay exactly as `apply_repairs` does: a failing insert/shift is silently ignored.
    /// Returns (stack, la, every step succeeded).
    pub fn plain_replay(&self, ss: &mut Stacks, mut stack: u32, mut la: usize, seq: &[Rp]) -> (u32, usize, bool) {
        let mut ok = true;
        for r in seq {
            match r {
                Rp::Ins(t) => {
                    let s = self.step(ss, stack, *t);
                    stack = s.stack;
                    if !s.shifted {
                        ok = false;
                    }
                }
                Rp::Del => {
                    if la >= self.toks.len() {
                        ok = false;
                    }
                    la += 1;
                }
                Rp::Sh => {
                    if la > self.toks.len() {
                        ok = false;
                        continue;
                    }
                    let s = self.step(ss, stack, self.la(la));
                    stack = s.stack;
                    if s.shifted {
                        la += 1;
                    } else {
                        ok = false;
                    }
                }
            }
        }
        (stack, la, ok)
    }
    /// Does applying `seq` at (stack, la) let a plain parse continue over >= 3 further lexemes or
    /// to acceptance (C05-a)?
    pub fn repairs_ok(&self, ss: &mut Stacks, stack: u32, la: usize, seq: &[Rp]) -> bool {
        let (s2, la2, ok) = self.plain_replay(ss, stack, la, seq);
        if !ok {
            return false;
        }
        let (reach, _, acc) = self.parse_from(ss, s2, la2, la2 + 3);
        acc || reach >= la2 + 3
    }
}

// ---------------------------------------------------------------------------------------------
// Reference repair search
// ---------------------------------------------------------------------------------------------

#[derive(Clone, Copy, PartialEq, Eq, PartialOrd, Ord, Debug)]
struct Key {
    stack: u32,
    la: u32,
    del: bool,
    nsh: u8,
}

struct SNode {
    key: Key,
    preds: Vec<(u32, Option<Rp>)>, // (pred node, repair appended)
    expanded: bool,
}

#[derive(Debug, Clone)]
pub struct Cand {
    pub seq: Vec<Rp>,
    /// configuration the search itself arrived at
    pub search_stack: u32,
    pub search_la: usize,
    /// configuration a plain replay of `seq` arrives at, and whether every step of it succeeded
    pub replay_stack: u32,
    pub replay_la: usize,
    pub replay_ok: bool,
    /// how far a plain parse gets after the plain replay (capped at la0 + 250)
    pub reach: usize,
    /// search-time and replay configurations agree once the reductions demanded by the next
    /// lookahead are done in both (the search may end in a reduction-only move)
    pub same_config: bool,
}
impl Cand {
    pub fn stable(&self) -> bool {
        self.replay_ok && self.same_config
    }
}

#[derive(Debug)]
pub enum SearchOutcome {
    /// the search space was exhausted without a success (only possible when every path dies)
    NoRepairs,
    Found {
        cost: u32,
        /// every min-cost success path, unfolded (before ranking / stripping)
        cands: Vec<Cand>,
        merged_nodes: usize,
    },
    /// cap exceeded: completeness comparison impossible
    Inconclusive(&'static str),
}

pub struct SearchCaps {
    pub max_nodes: usize,
    pub max_seqs: usize,
    pub max_cost: u32,
}
impl Default for SearchCaps {
    fn default() -> Self {
        SearchCaps { max_nodes: 40_000, max_seqs: 20_000, max_cost: 60_000 }
    }
}

pub fn strip(seq: &[Rp]) -> Vec<Rp> {
    let mut v = seq.to_vec();
    while v.last() == Some(&Rp::Sh) {
        v.pop();
    }
    v
}

pub fn ref_search(c: &Ctx, ss: &mut Stacks, stack0: u32, la0: usize, caps: &SearchCaps) -> SearchOutcome {
    let mut nodes: Vec<SNode> = vec![];
    // per cost: key -> node id, plus worklist
    let mut buckets: BTreeMap<u32, (BTreeMap<Key, u32>, Vec<u32>)> = BTreeMap::new();
    let k0 = Key { stack: stack0, la: la0 as u32, del: false, nsh: 0 };
    nodes.push(SNode { key: k0, preds: vec![], expanded: false });
    buckets.entry(0).or_default().0.insert(k0, 0);
    buckets.get_mut(&0).unwrap().1.push(0);
    let mut merged = 0usize;

    loop {
        let Some((&cost, _)) = buckets.iter().next() else { return SearchOutcome::NoRepairs };
        if cost > caps.max_cost {
            return SearchOutcome::Inconclusive("cost cap");
        }
        let (mut index, mut work) = buckets.remove(&cost).unwrap();
        let mut succ: Vec<u32> = vec![];
        while let Some(nid) = work.pop() {
            if nodes[nid as usize].expanded {
                continue;
            }
            nodes[nid as usize].expanded = true;
            if nodes.len() > caps.max_nodes {
                return SearchOutcome::Inconclusive("node cap");
            }
            let key = nodes[nid as usize].key;
            let la = key.la as usize;
            // Success: three lexemes shifted in a row, or the remaining input is empty and is
            // accepted once the reductions the end of input demands are done.
            let is_succ = key.nsh >= 3
                || (la == c.toks.len() && {
                    let s = c.reduce_only(ss, key.stack, c.eof);
                    matches!(c.st.action(StIdx(ss.top(s)), TIdx(c.eof)), Action::Accept)
                });
            if is_succ {
                succ.push(nid);
                continue;
            }
            let mut add = |nodes: &mut Vec<SNode>,
                           buckets: &mut BTreeMap<u32, (BTreeMap<Key, u32>, Vec<u32>)>,
                           index: &mut BTreeMap<Key, u32>,
                           work: &mut Vec<u32>,
                           merged: &mut usize,
                           ncost: u32,
                           k: Key,
                           rp: Option<Rp>| {
                let (idx, wl) = if ncost == cost {
                    (index, work)
                } else {
                    let e = buckets.entry(ncost).or_default();
                    (&mut e.0, &mut e.1)
                };
                if let Some(id) = idx.get(&k) {
                    let n = &mut nodes[*id as usize];
                    if !n.preds.contains(&(nid, rp)) {
                        n.preds.push((nid, rp));
                        *merged += 1;
                    }
                } else {
                    let id = nodes.len() as u32;
                    nodes.push(SNode { key: k, preds: vec![(nid, rp)], expanded: false });
                    idx.insert(k, id);
                    wl.push(id);
                }
            };
            if !key.del {
                for t in 0..c.ntok {
                    if t == c.eof {
                        continue;
                    }
                    let r = c.step(ss, key.stack, t);
                    if r.shifted {
                        let k = Key { stack: r.stack, la: key.la, del: false, nsh: 0 };
                        add(&mut nodes, &mut buckets, &mut index, &mut work, &mut merged, cost + c.costs[t as usize] as u32, k, Some(Rp::Ins(t)));
                    }
                }
            }
            if la < c.toks.len() {
                let k = Key { stack: key.stack, la: key.la + 1, del: true, nsh: 0 };
                add(&mut nodes, &mut buckets, &mut index, &mut work, &mut merged, cost + c.costs[c.toks[la] as usize] as u32, k, Some(Rp::Del));
            }
            // Shift: the reductions the next lexeme demands, then the lexeme itself - a move only
            // if the lexeme really is shifted (the documented move set has no "reduce only" move:
            // reductions belong to the shift, insert or acceptance they prepare).
            if la < c.toks.len() {
                let r = c.step(ss, key.stack, c.la(la));
                if r.shifted {
                    let k = Key { stack: r.stack, la: key.la + 1, del: false, nsh: (key.nsh + 1).min(3) };
                    add(&mut nodes, &mut buckets, &mut index, &mut work, &mut merged, cost, k, Some(Rp::Sh));
                }
            }
            if c.looped.get() {
                return SearchOutcome::Inconclusive("reduction loop");
            }
        }
        if succ.is_empty() {
            continue;
        }
        // Count paths (saturating) before unfolding.
        let mut cnt: BTreeMap<u32, u64> = BTreeMap::new();
        fn count(nodes: &[SNode], cnt: &mut BTreeMap<u32, u64>, n: u32, depth: usize) -> u64 {
            if let Some(c) = cnt.get(&n) {
                return *c;
            }
            if depth > 20_000 {
                return u64::MAX / 4;
            }
            let nd = &nodes[n as usize];
            let c = if nd.preds.is_empty() {
                1
            } else {
                let mut t = 0u64;
                for (p, _) in &nd.preds {
                    t = t.saturating_add(count(nodes, cnt, *p, depth + 1)).min(u64::MAX / 4);
                }
                t
            };
            cnt.insert(n, c);
            c
        }
        let mut total = 0u64;
        for s in &succ {
            total = total.saturating_add(count(&nodes, &mut cnt, *s, 0));
        }
        if total > caps.max_seqs as u64 {
            return SearchOutcome::Inconclusive("sequence cap");
        }
        // Unfold (memoised per node).
        let mut memo: BTreeMap<u32, Vec<Vec<Rp>>> = BTreeMap::new();
        fn unfold(nodes: &[SNode], memo: &mut BTreeMap<u32, Vec<Vec<Rp>>>, n: u32) -> Vec<Vec<Rp>> {
            if let Some(v) = memo.get(&n) {
                return v.clone();
            }
            let nd = &nodes[n as usize];
            let mut out: Vec<Vec<Rp>> = vec![];
            if nd.preds.is_empty() {
                out.push(vec![]);
            } else {
                for (p, rp) in &nd.preds {
                    for mut s in unfold(nodes, memo, *p) {
                        if let Some(r) = rp {
                            s.push(*r);
                        }
                        out.push(s);
                    }
                }
            }
            memo.insert(n, out.clone());
            out
        }
        let mut cands = vec![];
        let mut seen: BTreeSet<(Vec<Rp>, u32, usize)> = BTreeSet::new();
        for s in &succ {
            let key = nodes[*s as usize].key;
            for seq in unfold(&nodes, &mut memo, *s) {
                if !seen.insert((seq.clone(), key.stack, key.la as usize)) {
                    continue;
                }
                let (rs, rla, ok) = c.plain_replay(ss, stack0, la0, &seq);
                let (reach, _, _) = c.parse_from(ss, rs, rla, la0 + 250);
                let same_config = rla == key.la as usize && {
                    let a = c.reduce_only(ss, rs, c.la(rla));
                    let b = c.reduce_only(ss, key.stack, c.la(rla));
                    a == b
                };
                cands.push(Cand {
                    same_config,
                    seq,
                    search_stack: key.stack,
                    search_la: key.la as usize,
                    replay_stack: rs,
                    replay_la: rla,
                    replay_ok: ok,
                    reach,
                });
            }
        }
        if c.looped.get() {
            return SearchOutcome::Inconclusive("reduction loop");
        }
        return SearchOutcome::Found { cost, cands, merged_nodes: merged };
    }
}

/// The documented post-processing: keep the candidates that parse furthest, strip trailing
/// shifts, dedup.
pub fn expected_set(cands: &[Cand]) -> BTreeSet<Vec<Rp>> {
    let best = cands.iter().map(|c| c.reach).max().unwrap_or(0);
    cands.iter().filter(|c| c.reach == best).map(|c| strip(&c.seq)).collect()
}

// ---------------------------------------------------------------------------------------------
// Reference tree
// ---------------------------------------------------------------------------------------------

#[derive(Clone, Debug, PartialEq, Eq)]
pub enum Tree {
    Term { tok: u16, start: usize, len: usize, faulty: bool },
    Nonterm { ridx: u16, pidx: Option<u16>, kids: Vec<Tree> },
}

impl Tree {
    pub fn leaves(&self, out: &mut Vec<(u16, usize, usize, bool)>) {
        match self {
            Tree::Term { tok, start, len, faulty } => out.push((*tok, *start, *len, *faulty)),
            Tree::Nonterm { kids, .. } => {
                for k in kids {
                    k.leaves(out);
                }
            }
        }
    }
    /// equality that ignores pidx (the generic tree does not carry it)
    pub fn same_shape(&self, o: &Tree) -> bool {
        match (self, o) {
            (Tree::Term { .. }, Tree::Term { .. }) => self == o,
            (Tree::Nonterm { ridx: a, kids: ka, .. }, Tree::Nonterm { ridx: b, kids: kb, .. }) => {
                a == b && ka.len() == kb.len() && ka.iter().zip(kb).all(|(x, y)| x.same_shape(y))
            }
            _ => false,
        }
    }
    pub fn count_nonterms(&self) -> usize {
        match self {
            Tree::Term { .. } => 0,
            Tree::Nonterm { kids, .. } => 1 + kids.iter().map(|k| k.count_nonterms()).sum::<usize>(),
        }
    }
    pub fn pp(&self) -> String {
        match self {
            Tree::Term { tok, start, faulty, .. } => format!("t{}@{}{}", tok, start, if *faulty { "!" } else { "" }),
            Tree::Nonterm { ridx, kids, .. } => {
                format!("R{}[{}]", ridx, kids.iter().map(|k| k.pp()).collect::<Vec<_>>().join(" "))
            }
        }
    }
}

/// One (possibly inserted) input element for the tree-building reference parse.
#[derive(Clone, Copy, Debug, PartialEq, Eq)]
pub struct InTok {
    pub tok: u16,
    pub start: usize,
    pub len: usize,
    pub faulty: bool,
}

pub enum TreeParse {
    Accept(Tree),
    /// error at element index `at` with the state stack and the forest built so far
    Error { at: usize, state: u16, forest: Vec<Tree> },
    Loop,
}

/// Plain LR parse of `input` (EOF appended implicitly) building a tree.
pub fn parse_tree(grm: &YaccGrammar<u16>, st: &StateTable<u16>, input: &[InTok]) -> TreeParse {
    let eof = grm.eof_token_idx().0;
    let mut states: Vec<u16> = vec![st.start_state().0];
    let mut forest: Vec<Tree> = vec![];
    let mut i = 0usize;
    let mut nred = 0usize;
    loop {
        let t = if i < input.len() { input[i].tok } else { eof };
        match st.action(StIdx(*states.last().unwrap()), TIdx(t)) {
            Action::Reduce(p) => {
                nred += 1;
                if nred > RED_CAP + (input.len() + 64) * (usize::from(grm.rules_len()) + 1) {
                    return TreeParse::Loop;
                }
                let n = grm.prod(p).len();
                let kids = forest.split_off(forest.len() - n);
                states.truncate(states.len() - n);
                let ridx = grm.prod_to_rule(p);
                let g = st.goto(StIdx(*states.last().unwrap()), ridx).expect("goto");
                states.push(g.0);
                forest.push(Tree::Nonterm { ridx: ridx.0, pidx: Some(p.0), kids });
            }
            Action::Shift(x) => {
                nred = 0;
                let it = input[i];
                states.push(x.0);
                forest.push(Tree::Term { tok: it.tok, start: it.start, len: it.len, faulty: it.faulty });
                i += 1;
            }
            Action::Accept => {
                assert_eq!(forest.len(), 1);
                return TreeParse::Accept(forest.pop().unwrap());
            }
            Action::Error => {
                return TreeParse::Error { at: i, state: *states.last().unwrap(), forest };
            }
        }
    }
}
