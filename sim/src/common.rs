//! Shared driver pieces: tiers, seeds, evidence and replay files, known findings.
use std::collections::BTreeMap;
use std::path::{Path, PathBuf};

use serde_json::{json, Value};

pub const EXIT_OK: i32 = 0;
pub const EXIT_VIOLATION: i32 = 1;
pub const EXIT_HARNESS: i32 = 2;

pub fn verif_dir() -> PathBuf {
    if let Ok(d) = std::env::var("VERIF_DIR") {
        return PathBuf::from(d);
    }
    // the binary lives in <verif>/sim/target/release/sim
    let exe = std::env::current_exe().expect("current_exe");
    let mut p = exe.as_path();
    for _ in 0..4 {
        p = p.parent().unwrap_or(Path::new("/verif"));
    }
    if p.join("properties.jsonl").exists() {
        p.to_path_buf()
    } else {
        PathBuf::from("/verif")
    }
}

pub fn seed_from_env() -> u64 {
    std::env::var("VERIF_SEED").ok().and_then(|s| s.trim().parse::<u64>().ok()).unwrap_or(1)
}

pub fn ncpu() -> usize {
    std::env::var("VERIF_JOBS")
        .ok()
        .and_then(|s| s.parse().ok())
        .unwrap_or_else(|| std::thread::available_parallelism().map(|n| n.get()).unwrap_or(4).min(16))
}

pub fn scratch_base() -> PathBuf {
    let p = PathBuf::from("/dev/shm");
    if p.is_dir() {
        let d = p.join(format!("verif-{}", std::process::id()));
        if std::fs::create_dir_all(&d).is_ok() {
            return d;
        }
    }
    let d = std::env::temp_dir().join(format!("verif-{}", std::process::id()));
    std::fs::create_dir_all(&d).expect("scratch dir");
    d
}

#[derive(Clone, Debug)]
pub struct KnownEntry {
    pub id: String,
    pub property: String,
    pub status: String, // "open" | "fixed"
    pub what: String,
}

pub fn load_known(dir: &Path) -> Result<Vec<KnownEntry>, String> {
    let p = dir.join("known_findings.json");
    if !p.exists() {
        return Ok(vec![]);
    }
    let v: Value = serde_json::from_str(&std::fs::read_to_string(&p).map_err(|e| e.to_string())?).map_err(|e| format!("known_findings.json: {e}"))?;
    let mut out = vec![];
    for e in v["findings"].as_array().cloned().unwrap_or_default() {
        out.push(KnownEntry {
            id: e["id"].as_str().unwrap_or("").to_string(),
            property: e["property"].as_str().unwrap_or("").to_string(),
            status: e["status"].as_str().unwrap_or("open").to_string(),
            what: e["what"].as_str().unwrap_or("").to_string(),
        });
    }
    Ok(out)
}

/// Is (property, signature id) listed as an open known finding?
pub fn is_listed(known: &[KnownEntry], property: &str, id: &str) -> bool {
    known.iter().any(|k| k.status == "open" && k.property == property && k.id == id)
}

pub struct Evidence {
    pub property: String,
    pub tier: String,
    pub seed: u64,
    pub evaluations: u64,
    pub distinct_nontrivial: u64,
    pub rule: String,
    pub samples: Vec<Value>,
    pub extra: BTreeMap<String, Value>,
    pub assumptions: Vec<String>,
    pub wall_s: f64,
    pub violations: u64,
}

impl Evidence {
    pub fn write(&self, dir: &Path) -> Result<(), String> {
        let mut cov = serde_json::Map::new();
        cov.insert("evaluations".into(), json!(self.evaluations));
        cov.insert("distinct_nontrivial".into(), json!(self.distinct_nontrivial));
        cov.insert("rule".into(), json!(self.rule));
        cov.insert("samples".into(), json!(self.samples));
        for (k, v) in &self.extra {
            cov.insert(k.clone(), v.clone());
        }
        let v = json!({
            "property_id": self.property,
            "tier": self.tier,
            "seed": self.seed as i64,
            "level": "exploration",
            "coverage": Value::Object(cov),
            "assumptions": self.assumptions,
            "wall_s": self.wall_s,
            "violations": self.violations as i64,
        });
        let ed = dir.join("evidence");
        std::fs::create_dir_all(&ed).map_err(|e| e.to_string())?;
        let p = ed.join(format!("{}.json", self.property));
        let tmp = ed.join(format!("{}.json.tmp", self.property));
        std::fs::write(&tmp, serde_json::to_string_pretty(&v).unwrap()).map_err(|e| e.to_string())?;
        std::fs::rename(&tmp, &p).map_err(|e| e.to_string())
    }
}

pub fn write_replay(dir: &Path, name: &str, v: &Value) -> Result<PathBuf, String> {
    let rd = dir.join("replays");
    std::fs::create_dir_all(&rd).map_err(|e| e.to_string())?;
    let p = rd.join(name);
    std::fs::write(&p, serde_json::to_string_pretty(v).unwrap()).map_err(|e| e.to_string())?;
    Ok(p)
}

pub fn sanitize(s: &str) -> String {
    s.chars().map(|c| if c.is_ascii_alphanumeric() || c == '-' { c } else { '_' }).collect()
}

/// Panics of simulated processes are caught and judged, so their messages are silenced - unless
/// VERIF_SHOW_PANICS is set (debugging the harness itself).
pub fn quiet_panics() {
    if std::env::var_os("VERIF_SHOW_PANICS").is_none() {
        std::panic::set_hook(Box::new(|_| {}));
    }
}
