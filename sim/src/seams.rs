//! The two libc seams (hash entropy and the monotonic clock) and the "simulated process"
//! runner. No grmtools source is touched: std reaches both through libc symbols which this
//! binary defines itself.
//!
//! * `getrandom`: std's `RandomState` fetches its per-thread keys through the libc symbol
//!   `getrandom` (library/std/src/sys/random/linux.rs). On a thread with a simulated entropy
//!   stream installed we serve SplitMix64 output, otherwise we forward to the raw syscall.
//! * `clock_gettime(CLOCK_MONOTONIC)`: `Instant::now()`. On a simulated thread every read is an
//!   event: it advances simulated time according to the thread's clock policy and is counted.
//!
//! One simulated process = one fresh OS thread (fresh thread-local `RandomState` keys).
use std::cell::{Cell, RefCell};

use crate::rng::splitmix;

pub const SIM_EPOCH_NS: u64 = 1_000_000_000;

thread_local! {
    static SIM_ENTROPY: Cell<Option<u64>> = const { Cell::new(None) };
    static ENTROPY_DRAWS: Cell<u64> = const { Cell::new(0) };
    static SIM_CLOCK_ON: Cell<bool> = const { Cell::new(false) };
    static SIM_NOW_NS: Cell<u64> = const { Cell::new(0) };
    static SIM_TICK_NS: Cell<u64> = const { Cell::new(0) };
    static CLOCK_READS: Cell<u64> = const { Cell::new(0) };
    // (read index, delta) sorted by read index; read indices are 1-based.
    static JUMPS: RefCell<Vec<(u64, u64)>> = const { RefCell::new(Vec::new()) };
    static JUMPS_FIRED: Cell<u64> = const { Cell::new(0) };
    static FIRST_READ_NS: Cell<u64> = const { Cell::new(0) };
}

#[no_mangle]
pub unsafe extern "C" fn getrandom(
    buf: *mut libc::c_void,
    len: libc::size_t,
    flags: libc::c_uint,
) -> libc::ssize_t {
    match SIM_ENTROPY.try_with(|s| s.get()) {
        Ok(Some(mut s)) => {
            let b = std::slice::from_raw_parts_mut(buf as *mut u8, len);
            for c in b.chunks_mut(8) {
                let v = splitmix(&mut s).to_ne_bytes();
                c.copy_from_slice(&v[..c.len()]);
            }
            let _ = SIM_ENTROPY.try_with(|x| x.set(Some(s)));
            let _ = ENTROPY_DRAWS.try_with(|x| x.set(x.get() + 1));
            len as libc::ssize_t
        }
        _ => libc::syscall(libc::SYS_getrandom, buf, len, flags) as libc::ssize_t,
    }
}

/// Short-write fault: when armed with n >= 0, the first `write` of more than n bytes to a regular
/// file stores only max(n, 1) bytes and says so - which POSIX allows at any time (signals,
/// quotas, full disks) and `write_all` absorbs. One shot.
pub static SHORT_WRITE_AT: std::sync::atomic::AtomicI64 = std::sync::atomic::AtomicI64::new(-1);
pub static SHORT_WRITES_FIRED: std::sync::atomic::AtomicU64 = std::sync::atomic::AtomicU64::new(0);

#[no_mangle]
pub unsafe extern "C" fn write(fd: libc::c_int, buf: *const libc::c_void, count: libc::size_t) -> libc::ssize_t {
    use std::sync::atomic::Ordering::SeqCst;
    let mut n = count;
    let lim = SHORT_WRITE_AT.load(SeqCst);
    if lim >= 0 && fd > 2 && count > lim as usize {
        let mut st: libc::stat = std::mem::zeroed();
        if libc::fstat(fd, &mut st) == 0 && (st.st_mode & libc::S_IFMT) == libc::S_IFREG {
            n = (lim as usize).max(1);
            SHORT_WRITE_AT.store(-1, SeqCst);
            SHORT_WRITES_FIRED.fetch_add(1, SeqCst);
        }
    }
    libc::syscall(libc::SYS_write, fd, buf, n) as libc::ssize_t
}

#[no_mangle]
pub unsafe extern "C" fn clock_gettime(clk: libc::clockid_t, tp: *mut libc::timespec) -> libc::c_int {
    if clk == libc::CLOCK_MONOTONIC && SIM_CLOCK_ON.try_with(|s| s.get()).unwrap_or(false) {
        let k = CLOCK_READS.with(|c| {
            c.set(c.get() + 1);
            c.get()
        });
        let mut ns = SIM_NOW_NS.with(|s| s.get()) + SIM_TICK_NS.with(|t| t.get());
        JUMPS.with(|j| {
            // No allocation here: the vector is only read.
            for (at, d) in j.borrow().iter() {
                if *at == k {
                    ns = ns.saturating_add(*d);
                    JUMPS_FIRED.with(|f| f.set(f.get() + 1));
                }
            }
        });
        SIM_NOW_NS.with(|s| s.set(ns));
        if k == 1 {
            FIRST_READ_NS.with(|f| f.set(ns));
        }
        (*tp).tv_sec = (ns / 1_000_000_000) as libc::time_t;
        (*tp).tv_nsec = (ns % 1_000_000_000) as libc::c_long;
        return 0;
    }
    libc::syscall(libc::SYS_clock_gettime, clk, tp) as libc::c_int
}

/// Real wall clock for the harness itself (never the simulated one).
pub fn real_now_s() -> f64 {
    let mut ts = libc::timespec { tv_sec: 0, tv_nsec: 0 };
    unsafe { libc::syscall(libc::SYS_clock_gettime, libc::CLOCK_MONOTONIC, &mut ts) };
    ts.tv_sec as f64 + ts.tv_nsec as f64 * 1e-9
}

#[derive(Clone, Debug, Default, serde::Serialize, serde::Deserialize, PartialEq)]
pub struct ClockPolicy {
    /// Every read of the monotonic clock advances simulated time by this many ns.
    pub tick_ns: u64,
    /// At the k-th read (1-based) simulated time additionally jumps forward by delta ns.
    pub jumps: Vec<(u64, u64)>,
}

#[derive(Clone, Debug, Default)]
pub struct SimStats {
    pub clock_reads: u64,
    /// simulated ns between the first read and the last read
    pub elapsed_ns: u64,
    pub jumps_fired: u64,
    pub entropy_draws: u64,
}

/// Install the simulated entropy stream on the *current* thread (used by child processes whose
/// main thread is the simulated process).
pub fn install_entropy(seed: u64) {
    SIM_ENTROPY.with(|s| s.set(Some(seed)));
}

fn install_clock(p: &ClockPolicy) {
    SIM_NOW_NS.with(|s| s.set(SIM_EPOCH_NS));
    SIM_TICK_NS.with(|t| t.set(p.tick_ns));
    JUMPS.with(|j| *j.borrow_mut() = p.jumps.clone());
    CLOCK_READS.with(|c| c.set(0));
    JUMPS_FIRED.with(|c| c.set(0));
    FIRST_READ_NS.with(|c| c.set(SIM_EPOCH_NS));
    SIM_CLOCK_ON.with(|s| s.set(true));
}

fn collect_stats() -> SimStats {
    SIM_CLOCK_ON.with(|s| s.set(false));
    SimStats {
        clock_reads: CLOCK_READS.with(|c| c.get()),
        elapsed_ns: SIM_NOW_NS.with(|s| s.get()).saturating_sub(FIRST_READ_NS.with(|f| f.get())),
        jumps_fired: JUMPS_FIRED.with(|c| c.get()),
        entropy_draws: ENTROPY_DRAWS.with(|c| c.get()),
    }
}

pub enum SimOutcome<T> {
    Ok(T),
    Panic(String),
}

/// Run `f` as one simulated process: a fresh OS thread whose `RandomState` keys come from
/// `hash_seed` and (if `clock` is given) whose monotonic clock is simulated.
/// Stack of a simulated process that runs harness-side work (reference, grammar construction).
pub const HARNESS_STACK: usize = 256 << 20;
/// Stack of a simulated process that runs the code under test on user input: the size a Linux
/// main thread gets by default. (Rust's own default for spawned threads is 2 MB.) Recursion
/// proportional to the input is a resource the environment bounds; exhausting it kills the
/// process, which the worker isolation reports as "the parse does not return".
pub const SUBJECT_STACK: usize = 8 << 20;

pub fn sim_process<'s, T: Send + 's>(
    hash_seed: u64,
    clock: Option<&ClockPolicy>,
    f: impl FnOnce() -> T + Send + 's,
) -> (SimOutcome<T>, SimStats) {
    sim_process_with_stack(hash_seed, clock, HARNESS_STACK, f)
}

pub fn sim_process_with_stack<'s, T: Send + 's>(
    hash_seed: u64,
    clock: Option<&ClockPolicy>,
    stack: usize,
    f: impl FnOnce() -> T + Send + 's,
) -> (SimOutcome<T>, SimStats) {
    let clock = clock.cloned();
    std::thread::scope(|sc| {
        let h = std::thread::Builder::new()
            .stack_size(std::env::var("VERIF_SIM_STACK_MB").ok().and_then(|s| s.parse::<usize>().ok()).map(|m| m << 20).unwrap_or(stack))
            .spawn_scoped(sc, move || {
                SIM_ENTROPY.with(|s| s.set(Some(hash_seed)));
                if let Some(c) = &clock {
                    install_clock(c);
                }
                let r = std::panic::catch_unwind(std::panic::AssertUnwindSafe(f));
                let st = collect_stats();
                let out = match r {
                    Ok(v) => SimOutcome::Ok(v),
                    Err(e) => {
                        let msg = if let Some(s) = e.downcast_ref::<&str>() {
                            s.to_string()
                        } else if let Some(s) = e.downcast_ref::<String>() {
                            s.clone()
                        } else {
                            "<non-string panic>".to_string()
                        };
                        SimOutcome::Panic(msg)
                    }
                };
                (out, st)
            })
            .expect("spawn simulated process");
        h.join().expect("simulated process thread died outside catch_unwind")
    })
}

/// Startup self-test: both seams must be live, else every verdict would be meaningless.
pub fn selftest() -> Result<(), String> {
    use std::collections::HashSet;
    use std::time::Instant;
    let order = |seed: u64| -> Vec<u32> {
        match sim_process(seed, None, || {
            let hs: HashSet<u32> = (0..64).collect();
            hs.into_iter().collect::<Vec<u32>>()
        })
        .0
        {
            SimOutcome::Ok(v) => v,
            SimOutcome::Panic(m) => panic!("{m}"),
        }
    };
    let a = order(42);
    let b = order(42);
    let c = order(43);
    let d = order(44);
    if a != b {
        return Err("getrandom seam: same seed gave different HashSet orders".into());
    }
    if a == c && a == d {
        return Err("getrandom seam: different seeds gave the same HashSet order (interposition not live)".into());
    }
    let pol = ClockPolicy { tick_ns: 123_456_789, jumps: vec![(3, 1_000_000_000_000)] };
    let (r, st) = sim_process(1, Some(&pol), || {
        let t0 = Instant::now();
        let t1 = Instant::now();
        let t2 = Instant::now();
        ((t1 - t0).as_nanos() as u64, (t2 - t1).as_nanos() as u64)
    });
    match r {
        SimOutcome::Ok((d1, d2)) => {
            if d1 != 123_456_789 || d2 != 123_456_789 + 1_000_000_000_000 {
                return Err(format!("clock seam: observed steps {d1} / {d2}"));
            }
        }
        SimOutcome::Panic(m) => return Err(format!("clock seam panicked: {m}")),
    }
    if st.clock_reads != 3 || st.jumps_fired != 1 {
        return Err(format!("clock seam: reads {} jumps {}", st.clock_reads, st.jumps_fired));
    }
    // The harness thread itself must see real time.
    let t0 = Instant::now();
    std::thread::sleep(std::time::Duration::from_millis(2));
    if t0.elapsed().as_micros() < 1500 {
        return Err("clock seam leaked into a non-simulated thread".into());
    }
    Ok(())
}

/// Touch every lazily initialised process-global of the code under test once, on a thread that
/// is *not* a simulated process. `RandomState::new()` advances a per-thread counter, so a lazy
/// static that builds a `HashMap`/`Regex` on first use inside a simulated process would shift that
/// process's hash keys depending on the history of the *host* process: replay would not be a pure
/// function of the scenario (found with seeded change C15-r2-1: the minimised scenario failed in
/// the long-running parent and passed in the fresh replay process).
pub fn warmup() {
    // The regex crate keeps its per-regex scratch space in a pool sharded by (thread id mod 8);
    // a thread that finds its shard empty builds a fresh cache, which creates `HashMap`s and thereby
    // advances that thread's `RandomState` counter. So the first threads of a process behave
    // differently from later ones until every shard of every pool holds a cache: run the warm-up
    // body on enough consecutive threads to reach that steady state (found with seeded change
    // C06-r3-1, whose minimised scenario reproduced after 58 executions in the minimiser's process
    // and not as the first execution of a fresh one).
    for _ in 0..std::env::var("VERIF_WARMUP_THREADS").ok().and_then(|s| s.parse().ok()).unwrap_or(24usize) {
        warmup_once();
    }
}

fn warmup_once() {
    use cfgrammar::yacc::{YaccGrammar, YaccKind, YaccOriginalActionKind};
    let h = std::thread::spawn(|| {
        let g = "%grmtools{yacckind: Grmtools}\n%start A\n%token X\n%left 'a'\n%epp X \"x\"\n%avoid_insert X\n%expect 0\n%expect-rr 0\n%parse-param p: u64\n%%\nA -> u64: A 'a' { 0 } | X { 1 } | { 2 };\n%%\nfn f() {}\n";
        for k in [
            YaccKind::Grmtools,
            YaccKind::Original(YaccOriginalActionKind::GenericParseTree),
            YaccKind::Original(YaccOriginalActionKind::NoAction),
            YaccKind::Original(YaccOriginalActionKind::UserAction),
            YaccKind::Eco,
        ] {
            for src in [g, "%start A\n%actiontype u64\n%implicit_tokens W V\n%%\nA: 'a' A { 0 } | ;\n", "%start A\n%%\nA: 'a' A | 'b' %prec 'a';\n", "%%%"] {
                if let Ok(grm) = YaccGrammar::<u16>::new_with_storaget(k, src) {
                    let _ = lrtable::from_yacc(&grm, lrtable::Minimiser::Pager);
                    let _ = grm.firsts();
                    let _ = grm.follows();
                }
            }
        }
        use lrlex::LexerDef;
        let _ = lrlex::LRNonStreamingLexerDef::<lrlex::DefaultLexerTypes<u32>>::from_str("%%\n[0-9]+ \"INT\"\n[ \\t\\n]+ ;\n").map(|d| {
            let l = d.lexer("1 2");
            use lrpar::Lexer;
            let _ = l.iter().count();
        });
        let _ = lrlex::LRNonStreamingLexerDef::<lrlex::DefaultLexerTypes<u32>>::from_str("%grmtools{lexerkind: X}\n%%%\n[");
        let mut c = cfgrammar::newlinecache::NewlineCache::new();
        c.feed("a\nb");
    });
    let _ = h.join();
}
