//! `sim build-step <spec.json> <result.json>`: one real compile-time build (CTLexerBuilder
//! driving CTParserBuilder, optionally CTTokenMapBuilder) as its own process -- the builders keep
//! a process-global set of generated paths, so every real build is a fresh process and the
//! simulator respects that. The main thread is the simulated process: its hash entropy comes
//! from the spec, and an optional RLIMIT_FSIZE gives kernel-enforced short writes (crash with a
//! torn file when SIGXFSZ is left at its default, EFBIG error when it is ignored).
use std::path::PathBuf;

use cfgrammar::yacc::{YaccKind, YaccOriginalActionKind};
use lrlex::{CTLexerBuilder, CTTokenMapBuilder, DefaultLexerTypes};
use lrpar::{RecoveryKind, RustEdition, SerialisationFormat, Visibility};
use serde::{Deserialize, Serialize};

#[derive(Serialize, Deserialize, Clone, Debug, PartialEq, Eq, PartialOrd, Ord, Default)]
pub struct ParserOpts {
    /// None = taken from the %grmtools header of the grammar file
    pub yacckind: Option<String>,
    pub recoverer: Option<String>,
    pub visibility: Option<String>,
    pub rust_edition: Option<String>,
    pub mod_name: Option<String>,
    pub error_on_conflicts: Option<bool>,
    pub warnings_are_errors: Option<bool>,
    pub show_warnings: Option<bool>,
    pub serialisation_format: Option<String>,
    /// the builders' storage type parameter: "u8" | "u16" | "u32" (None = u32)
    #[serde(default)]
    pub storaget: Option<String>,
    /// "false": CTTokenMapBuilder gets no rename map, so token names such as "+" are rejected
    /// (the token-map step of the build fails)
    #[serde(default)]
    pub token_map_rename: Option<String>,
}

#[derive(Serialize, Deserialize, Clone, Debug, PartialEq, Eq, PartialOrd, Ord, Default)]
pub struct LexerOpts {
    pub visibility: Option<String>,
    pub rust_edition: Option<String>,
    pub mod_name: Option<String>,
    pub allow_missing_terms_in_lexer: Option<bool>,
    pub allow_missing_tokens_in_parser: Option<bool>,
    pub case_insensitive: Option<bool>,
    pub dot_matches_new_line: Option<bool>,
    pub warnings_are_errors: Option<bool>,
    /// the remaining CTLexerBuilder setters (regex flags and limits), by name
    #[serde(default)]
    pub extra: std::collections::BTreeMap<String, String>,
}

#[derive(Serialize, Deserialize, Clone, Debug)]
pub struct BuildSpec {
    pub hash_seed: u64,
    pub grammar_path: String,
    pub lexer_path: String,
    pub parser_out: String,
    pub lexer_out: String,
    pub parser: ParserOpts,
    pub lexer: LexerOpts,
    /// "combined" (CTLexerBuilder::lrpar_config, as every build.rs in the repository does) or
    /// "two-step" (CTParserBuilder::build, then CTLexerBuilder::rule_ids_map): the latter exposes
    /// CTParser::regenerated()
    #[serde(default)]
    pub flow: String,
    /// also run CTTokenMapBuilder into this directory (OUT_DIR)
    pub token_map_dir: Option<String>,
    /// RLIMIT_FSIZE in bytes for this build
    pub fsize_limit: Option<u64>,
    /// "crash" (SIGXFSZ kills the process mid-write) or "error" (write returns EFBIG)
    pub fsize_mode: Option<String>,
    /// builds (to other output paths) this process performs *first*: what a build.rs with several
    /// grammars does. Their outcome is ignored; the build proper must not notice them.
    #[serde(default)]
    pub prelude: Vec<BuildSpec>,
    /// after the build, create the lexer at run time from the same source and flags and lex this
    /// text: the result goes to `BuildResult::lex_dump`
    #[serde(default)]
    pub lex_probe: Option<String>,
    /// Some((crate directory, OUT_DIR)): use `grammar_in_src_dir` / `lexer_in_src_dir` with
    /// `grammar_path` / `lexer_path` taken relative to `<crate directory>/src`, as a build.rs does
    #[serde(default)]
    pub src_dir_mode: Option<(String, String)>,
    /// working directory of the build process (all paths in the spec are absolute)
    #[serde(default)]
    pub cwd: Option<String>,
}

#[derive(Serialize, Deserialize, Clone, Debug, Default)]
pub struct BuildResult {
    pub ok: bool,
    pub error: String,
    pub panicked: bool,
    /// was the parser output rewritten (created, mtime or content changed)?
    pub regenerated: Option<bool>,
    /// CTParser::regenerated(), when the flow exposes it
    pub reported_regenerated: Option<bool>,
    #[serde(default)]
    pub lex_dump: Option<String>,
    /// short writes injected (fsize_mode "short")
    #[serde(default)]
    pub short_writes: u64,
    /// `cargo:rerun-if-changed=` paths the builders printed (filled in by the parent)
    #[serde(default)]
    pub rerun_if_changed: Vec<String>,
}

pub fn yacckind_of(s: &str) -> Option<YaccKind> {
    Some(match s {
        "Original(NoAction)" => YaccKind::Original(YaccOriginalActionKind::NoAction),
        "Original(GenericParseTree)" => YaccKind::Original(YaccOriginalActionKind::GenericParseTree),
        "Original(UserAction)" => YaccKind::Original(YaccOriginalActionKind::UserAction),
        "Grmtools" => YaccKind::Grmtools,
        "Eco" => YaccKind::Eco,
        _ => return None,
    })
}
fn vis_of(s: &str) -> Visibility {
    if let Some(p) = s.strip_prefix("PublicIn:") {
        return Visibility::PublicIn(p.to_string());
    }
    match s {
        "Public" => Visibility::Public,
        "PublicSuper" => Visibility::PublicSuper,
        "PublicCrate" => Visibility::PublicCrate,
        "PublicSelf" => Visibility::PublicSelf,
        _ => Visibility::Private,
    }
}
fn lvis_of(s: &str) -> lrlex::Visibility {
    if let Some(p) = s.strip_prefix("PublicIn:") {
        return lrlex::Visibility::PublicIn(p.to_string());
    }
    match s {
        "Public" => lrlex::Visibility::Public,
        "PublicSuper" => lrlex::Visibility::PublicSuper,
        "PublicCrate" => lrlex::Visibility::PublicCrate,
        "PublicSelf" => lrlex::Visibility::PublicSelf,
        _ => lrlex::Visibility::Private,
    }
}
fn ed_of(s: &str) -> RustEdition {
    match s {
        "2015" => RustEdition::Rust2015,
        "2018" => RustEdition::Rust2018,
        _ => RustEdition::Rust2021,
    }
}
fn led_of(s: &str) -> lrlex::RustEdition {
    match s {
        "2015" => lrlex::RustEdition::Rust2015,
        "2018" => lrlex::RustEdition::Rust2018,
        _ => lrlex::RustEdition::Rust2021,
    }
}

pub fn main(spec_path: &str, result_path: &str) -> i32 {
    let spec: BuildSpec = serde_json::from_str(&std::fs::read_to_string(spec_path).expect("spec")).expect("spec json");
    // Before anything that might create a RandomState.
    crate::seams::install_entropy(spec.hash_seed);
    if let (Some(lim), Some("short")) = (spec.fsize_limit, spec.fsize_mode.as_deref()) {
        // one short write (no error) at byte `lim` of the first larger write to a file
        crate::seams::SHORT_WRITE_AT.store(lim as i64, std::sync::atomic::Ordering::SeqCst);
    } else if let Some(lim) = spec.fsize_limit {
        unsafe {
            if spec.fsize_mode.as_deref() == Some("error") {
                libc::signal(libc::SIGXFSZ, libc::SIG_IGN);
            } else {
                libc::signal(libc::SIGXFSZ, libc::SIG_DFL);
            }
            let l = libc::rlimit { rlim_cur: lim, rlim_max: lim };
            libc::setrlimit(libc::RLIMIT_FSIZE, &l);
        }
    }
    std::panic::set_hook(Box::new(|_| {}));
    if let Some(d) = &spec.cwd {
        let _ = std::fs::create_dir_all(d);
        let _ = std::env::set_current_dir(d);
    }
    // a build script always runs with OUT_DIR set
    if let Some(d) = &spec.token_map_dir {
        std::env::set_var("OUT_DIR", d);
    }
    for pre in &spec.prelude {
        let pre = pre.clone();
        let _ = std::panic::catch_unwind(move || {
            let _ = run(&pre);
            let _ = lex_probe(&pre);
        });
    }
    let spec2 = spec.clone();
    let r = std::panic::catch_unwind(move || run(&spec2));
    let spec3 = spec.clone();
    let lex_dump = std::panic::catch_unwind(move || lex_probe(&spec3)).unwrap_or(Some("probe panicked".into()));
    // lift the limit so that the (small) result file can always be written
    unsafe {
        libc::signal(libc::SIGXFSZ, libc::SIG_IGN);
    }
    let res = match r {
        Ok(Ok((regen, rep))) => BuildResult { ok: true, error: String::new(), panicked: false, regenerated: Some(regen), reported_regenerated: rep, lex_dump, short_writes: 0, rerun_if_changed: vec![] },
        Ok(Err(e)) => BuildResult { ok: false, error: e, panicked: false, regenerated: None, reported_regenerated: None, lex_dump, short_writes: 0, rerun_if_changed: vec![] },
        Err(_) => BuildResult { ok: false, error: "builder panicked".into(), panicked: true, regenerated: None, reported_regenerated: None, lex_dump, short_writes: 0, rerun_if_changed: vec![] },
    };
    // The result travels through stdout: a pipe is not subject to RLIMIT_FSIZE.
    let _ = result_path;
    let mut res = res;
    res.short_writes = crate::seams::SHORT_WRITES_FIRED.load(std::sync::atomic::Ordering::SeqCst);
    crate::seams::SHORT_WRITE_AT.store(-1, std::sync::atomic::Ordering::SeqCst);
    let js = serde_json::to_string(&res).unwrap();
    println!("BUILD-RESULT {js}");
    0
}

/// The lexer created at run time from the spec's lexer source and flags, run over the probe text.
fn lex_probe(spec: &BuildSpec) -> Option<String> {
    use lrpar::{Lexeme, Lexer};
    let probe = spec.lex_probe.as_ref()?;
    let src = std::fs::read_to_string(&spec.lexer_path).ok()?;
    let mut flags = lrlex::DEFAULT_LEX_FLAGS;
    let l = &spec.lexer;
    if l.case_insensitive.is_some() {
        flags.case_insensitive = l.case_insensitive;
    }
    if l.dot_matches_new_line.is_some() {
        flags.dot_matches_new_line = l.dot_matches_new_line;
    }
    for (k, v) in &l.extra {
        let f = Some(v == "true");
        match k.as_str() {
            "multi_line" => flags.multi_line = f,
            "octal" => flags.octal = f,
            "posix_escapes" => flags.posix_escapes = f,
            "swap_greed" => flags.swap_greed = f,
            "ignore_whitespace" => flags.ignore_whitespace = f,
            "unicode" => flags.unicode = f,
            _ => {}
        }
    }
    let def = match lrlex::LRNonStreamingLexerDef::<DefaultLexerTypes<u32>>::new_with_options(&src, flags) {
        Ok(d) => d,
        Err(_) => return Some("lexer source rejected".into()),
    };
    use lrlex::LexerDef;
    let lexer = def.lexer(probe);
    let mut out = String::new();
    for r in lexer.iter() {
        match r {
            Ok(lx) => out.push_str(&format!("{}@{}+{} ", lx.tok_id(), lx.span().start(), lx.span().len())),
            Err(e) => {
                use lrpar::LexError;
                out.push_str(&format!("ERR@{} ", e.span().start()));
            }
        }
    }
    Some(out)
}

static IN_SRC_DIR: std::sync::atomic::AtomicBool = std::sync::atomic::AtomicBool::new(false);

macro_rules! impl_build {
    ($cfg:ident, $run:ident, $t:ty) => {
        fn $cfg<'a>(mut ctp: lrpar::CTParserBuilder<'a, DefaultLexerTypes<$t>>, p: &ParserOpts, gpath: &PathBuf, pout: &PathBuf) -> lrpar::CTParserBuilder<'a, DefaultLexerTypes<$t>> {
            ctp = if IN_SRC_DIR.load(std::sync::atomic::Ordering::SeqCst) { ctp.grammar_in_src_dir(gpath).expect("grammar_in_src_dir") } else { ctp.grammar_path(gpath).output_path(pout) };
            if let Some(k) = p.yacckind.as_deref().and_then(yacckind_of) {
                ctp = ctp.yacckind(k);
            }
            if let Some(r) = &p.recoverer {
                ctp = ctp.recoverer(if r == "None" { RecoveryKind::None } else { RecoveryKind::CPCTPlus });
            }
            if let Some(v) = &p.visibility {
                ctp = ctp.visibility(vis_of(v));
            }
            if let Some(v) = &p.rust_edition {
                ctp = ctp.rust_edition(ed_of(v));
            }
            if let Some(v) = &p.mod_name {
                // the builder borrows the name; leak it (one build per process)
                ctp = ctp.mod_name(Box::leak(v.clone().into_boxed_str()));
            }
            if let Some(v) = p.error_on_conflicts {
                ctp = ctp.error_on_conflicts(v);
            }
            if let Some(v) = p.warnings_are_errors {
                ctp = ctp.warnings_are_errors(v);
            }
            ctp = ctp.show_warnings(p.show_warnings.unwrap_or(false));
            if let Some(v) = &p.serialisation_format {
                ctp = ctp.serialisation_format(if v == "FixedSizeInteger" { SerialisationFormat::FixedSizeInteger } else { SerialisationFormat::VariableSizedInteger });
            }
            ctp
        }

        fn $run(spec: &BuildSpec) -> Result<Option<bool>, String> {
            let p = spec.parser.clone();
            let gpath = PathBuf::from(&spec.grammar_path);
            let pout = PathBuf::from(&spec.parser_out);
            let mut lb = CTLexerBuilder::<DefaultLexerTypes<$t>>::new_with_lexemet();
            lb = match &spec.src_dir_mode {
                Some((manifest, out_dir)) => {
                    std::env::set_current_dir(manifest).map_err(|e| e.to_string())?;
                    std::env::set_var("OUT_DIR", out_dir);
                    IN_SRC_DIR.store(true, std::sync::atomic::Ordering::SeqCst);
                    lb.lexer_in_src_dir(&spec.lexer_path).map_err(|e| e.to_string())?
                }
                None => lb.lexer_path(&spec.lexer_path).output_path(&spec.lexer_out),
            };
            let l = &spec.lexer;
            if let Some(v) = &l.visibility {
                lb = lb.visibility(lvis_of(v));
            }
            if let Some(v) = &l.rust_edition {
                lb = lb.rust_edition(led_of(v));
            }
            if let Some(v) = &l.mod_name {
                lb = lb.mod_name(v);
            }
            if let Some(v) = l.allow_missing_terms_in_lexer {
                lb = lb.allow_missing_terms_in_lexer(v);
            }
            if let Some(v) = l.allow_missing_tokens_in_parser {
                lb = lb.allow_missing_tokens_in_parser(v);
            }
            if let Some(v) = l.case_insensitive {
                lb = lb.case_insensitive(v);
            }
            if let Some(v) = l.dot_matches_new_line {
                lb = lb.dot_matches_new_line(v);
            }
            if let Some(v) = l.warnings_are_errors {
                lb = lb.warnings_are_errors(v);
            }
            for (k, v) in &l.extra {
                let f = v == "true";
                let n: u64 = v.parse().unwrap_or(0);
                lb = match k.as_str() {
                    "allow_wholeline_comments" => lb.allow_wholeline_comments(f),
                    "multi_line" => lb.multi_line(f),
                    "posix_escapes" => lb.posix_escapes(f),
                    "octal" => lb.octal(f),
                    "swap_greed" => lb.swap_greed(f),
                    "ignore_whitespace" => lb.ignore_whitespace(f),
                    "unicode" => lb.unicode(f),
                    "size_limit" => lb.size_limit(n as usize),
                    "dfa_size_limit" => lb.dfa_size_limit(n as usize),
                    "nest_limit" => lb.nest_limit(n as u32),
                    _ => lb,
                };
            }
            lb = lb.show_warnings(false);
            let mut reported = None;
            if spec.flow == "two-step" {
                let ctp = $cfg(lrpar::CTParserBuilder::<DefaultLexerTypes<$t>>::new(), &p, &gpath, &pout);
                let cp = ctp.build().map_err(|e| e.to_string())?;
                reported = Some(cp.regenerated());
                lb = lb.rule_ids_map(cp.token_map().to_owned());
                let _ctlexer = lb.build().map_err(|e| e.to_string())?;
            } else {
                let (p2, g2, o2) = (p.clone(), gpath.clone(), pout.clone());
                let lb = lb.lrpar_config(move |ctp| $cfg(ctp, &p2, &g2, &o2));
                let _ctlexer = lb.build().map_err(|e| e.to_string())?;
            }
            Ok(reported)
        }
    };
}
impl_build!(config_parser_u8, run_u8, u8);
impl_build!(config_parser_u16, run_u16, u16);
impl_build!(config_parser_u32, run_u32, u32);

fn run(spec: &BuildSpec) -> Result<(bool, Option<bool>), String> {
    let before_parser = std::fs::metadata(&spec.parser_out).ok().and_then(|m| m.modified().ok());
    let before_content = std::fs::read(&spec.parser_out).ok();
    let reported = match spec.parser.storaget.as_deref() {
        Some("u8") => run_u8(spec)?,
        Some("u16") => run_u16(spec)?,
        _ => run_u32(spec)?,
    };
    // Was the parser output rewritten? (mtime or content changed, or newly created)
    let after_parser = std::fs::metadata(&spec.parser_out).ok().and_then(|m| m.modified().ok());
    let after_content = std::fs::read(&spec.parser_out).ok();
    let regenerated = before_parser != after_parser || before_content != after_content;
    if let Some(dir) = &spec.token_map_dir {
        // Token map from the grammar's own token numbering.
        let src = std::fs::read_to_string(&spec.grammar_path).map_err(|e| e.to_string())?;
        // the kind may come from the grammar's own header: take the first one that parses
        let kinds = [spec.parser.yacckind.as_deref().and_then(yacckind_of).unwrap_or(YaccKind::Grmtools), YaccKind::Grmtools, YaccKind::Original(YaccOriginalActionKind::NoAction)];
        if let Some(grm) = kinds.iter().find_map(|k| cfgrammar::yacc::YaccGrammar::<u32>::new_with_storaget(*k, &src).ok()) {
            let map: std::collections::HashMap<String, u32> = grm.tokens_map().iter().map(|(k, v)| (k.to_string(), v.0)).collect();
            std::env::set_var("OUT_DIR", dir);
            let rename: Vec<(String, String)> = map.keys().enumerate().filter(|(_, k)| !k.chars().all(|c| c.is_ascii_alphanumeric() || c == '_')).map(|(i, k)| (k.clone(), format!("SYM{}", {
                // stable name from the token text, not from iteration order
                let _ = i;
                crate::rng::fnv(k.as_bytes()) % 100000
            }))).collect();
            let rename = if spec.parser.token_map_rename.as_deref() == Some("false") { None } else { Some(rename) };
            CTTokenMapBuilder::<u32>::new("token_map", map).rename_map(rename).allow_dead_code(true).build().map_err(|e| format!("token map: {e}"))?;
        }
    }
    Ok((regenerated, reported))
}
