//! SplitMix64: the only source of pseudo-randomness in the harness.
pub fn splitmix(x: &mut u64) -> u64 {
    *x = x.wrapping_add(0x9E3779B97F4A7C15);
    let mut z = *x;
    z = (z ^ (z >> 30)).wrapping_mul(0xBF58476D1CE4E5B9);
    z = (z ^ (z >> 27)).wrapping_mul(0x94D049BB133111EB);
    z ^ (z >> 31)
}

pub fn mix(a: u64, b: u64, c: u64) -> u64 {
    let mut s = a ^ 0x5851F42D4C957F2D;
    let mut r = splitmix(&mut s);
    s ^= b.wrapping_mul(0xD6E8FEB86659FD93);
    r ^= splitmix(&mut s);
    s ^= c.wrapping_mul(0xCA5A826395121157);
    r ^= splitmix(&mut s);
    r
}

#[derive(Clone)]
pub struct Rng(pub u64);
impl Rng {
    pub fn new(seed: u64) -> Self {
        Rng(seed)
    }
    pub fn next(&mut self) -> u64 {
        splitmix(&mut self.0)
    }
    /// uniform in 0..n (n > 0)
    pub fn below(&mut self, n: u64) -> u64 {
        debug_assert!(n > 0);
        self.next() % n
    }
    pub fn range(&mut self, lo: u64, hi_incl: u64) -> u64 {
        lo + self.below(hi_incl - lo + 1)
    }
    pub fn chance(&mut self, pct: u64) -> bool {
        self.below(100) < pct
    }
    pub fn pick<'a, T>(&mut self, xs: &'a [T]) -> &'a T {
        &xs[self.below(xs.len() as u64) as usize]
    }
}

/// FNV-1a 64 over bytes, for digests (fixed, process-independent).
pub fn fnv(bytes: &[u8]) -> u64 {
    let mut h: u64 = 0xcbf29ce484222325;
    for b in bytes {
        h ^= *b as u64;
        h = h.wrapping_mul(0x100000001b3);
    }
    h
}
pub fn fnv_add(h: u64, bytes: &[u8]) -> u64 {
    let mut h = h;
    for b in bytes {
        h ^= *b as u64;
        h = h.wrapping_mul(0x100000001b3);
    }
    h
}
