//! Grammar workload for engine R (and reused by engine D): random grammars, LR(1)-by-
//! construction templates, a fixed corpus; the cycle test that delimits C07's envelope and the
//! classification into populations P1 (every table cell has at most one candidate action) and
//! P2 (some cell had several before conflict resolution).
use cfgrammar::{
    yacc::{YaccGrammar, YaccKind, YaccOriginalActionKind},
    PIdx, Symbol, TIdx,
};
use lrtable::{from_yacc, Minimiser, StateGraph, StateTable};

use crate::rng::Rng;

pub struct Built {
    pub grm: YaccGrammar<u16>,
    pub sg: StateGraph<u16>,
    pub st: StateTable<u16>,
}

pub fn build(src: &str) -> Result<Built, String> {
    let grm = YaccGrammar::<u16>::new_with_storaget(
        YaccKind::Original(YaccOriginalActionKind::GenericParseTree),
        src,
    )
    .map_err(|e| format!("grammar: {:?}", e.first().map(|x| x.to_string())))?;
    let (sg, st) = from_yacc(&grm, Minimiser::Pager).map_err(|e| format!("table: {e}"))?;
    Ok(Built { grm, sg, st })
}

pub fn ntokens(grm: &YaccGrammar<u16>) -> usize {
    usize::from(grm.tokens_len())
}
pub fn nrules(grm: &YaccGrammar<u16>) -> usize {
    usize::from(grm.rules_len())
}

pub fn nullable_rules(grm: &YaccGrammar<u16>) -> Vec<bool> {
    let nr = nrules(grm);
    let mut nullable = vec![false; nr];
    loop {
        let mut ch = false;
        for p in grm.iter_pidxs() {
            let r = usize::from(grm.prod_to_rule(p));
            if nullable[r] {
                continue;
            }
            if grm.prod(p).iter().all(|s| match s {
                Symbol::Rule(x) => nullable[usize::from(*x)],
                Symbol::Token(_) => false,
            }) {
                nullable[r] = true;
                ch = true;
            }
        }
        if !ch {
            break;
        }
    }
    nullable
}

/// Can some rule derive just itself (A =>+ A)? Such grammars are outside C07's envelope.
pub fn has_cycle(grm: &YaccGrammar<u16>) -> bool {
    let nr = nrules(grm);
    let nullable = nullable_rules(grm);
    let mut edge = vec![vec![false; nr]; nr];
    for p in grm.iter_pidxs() {
        let a = usize::from(grm.prod_to_rule(p));
        let pr = grm.prod(p);
        for (k, s) in pr.iter().enumerate() {
            if let Symbol::Rule(b) = s {
                let others_nullable = pr.iter().enumerate().all(|(j, s2)| {
                    j == k
                        || match s2 {
                            Symbol::Rule(x) => nullable[usize::from(*x)],
                            Symbol::Token(_) => false,
                        }
                });
                if others_nullable {
                    edge[a][usize::from(*b)] = true;
                }
            }
        }
    }
    for k in 0..nr {
        for i in 0..nr {
            if edge[i][k] {
                for j in 0..nr {
                    if edge[k][j] {
                        edge[i][j] = true;
                    }
                }
            }
        }
    }
    (0..nr).any(|i| edge[i][i])
}

/// Minimal sentence length per rule (None = unproductive).
pub fn min_lens(grm: &YaccGrammar<u16>) -> Vec<Option<u32>> {
    let nr = nrules(grm);
    let mut ml: Vec<Option<u32>> = vec![None; nr];
    loop {
        let mut ch = false;
        for p in grm.iter_pidxs() {
            let r = usize::from(grm.prod_to_rule(p));
            let mut tot = Some(0u32);
            for s in grm.prod(p) {
                tot = match (tot, s) {
                    (Some(t), Symbol::Token(_)) => Some(t + 1),
                    (Some(t), Symbol::Rule(x)) => ml[usize::from(*x)].map(|m| t + m),
                    (None, _) => None,
                };
            }
            if let Some(t) = tot {
                if ml[r].map_or(true, |m| t < m) {
                    ml[r] = Some(t);
                    ch = true;
                }
            }
        }
        if !ch {
            break;
        }
    }
    ml
}

/// Number of (state, token) cells with more than one candidate action before resolution,
/// computed from the state graph itself (conflicts() omits precedence-resolved cells).
pub fn multi_action_cells(b: &Built) -> usize {
    let grm = &b.grm;
    let nt = ntokens(grm);
    let mut n = 0;
    for stidx in b.sg.iter_stidxs() {
        let state = b.sg.closed_state(stidx);
        let mut cnt = vec![0u32; nt];
        for (&(pidx, dot), ctx) in &state.items {
            if dot < grm.prod_len(pidx) {
                continue;
            }
            for t in ctx.iter_set_bits(..) {
                cnt[t] += 1;
            }
        }
        for t in 0..nt {
            if b.sg.edge(stidx, Symbol::Token(TIdx(t as u16))).is_some() {
                cnt[t] += 1;
            }
        }
        n += cnt.iter().filter(|c| **c > 1).count();
    }
    n
}

/// A (state, token) from which the LR driver reduces forever without ever digging below that
/// state: an endless chain of reductions that no input can stop (hidden left recursion left in
/// the table by Yacc-style conflict resolution). Found by simulating the reductions demanded by
/// each lookahead on a local stack whose base is the state itself; a reduction that would pop
/// below the base ends the simulation (nothing is known about what lies beneath).
pub fn reduction_loop_witness(b: &Built) -> Option<(u16, u16)> {
    use lrtable::{Action, StIdx};
    let grm = &b.grm;
    let nt = ntokens(grm) as u16;
    for stidx in b.sg.iter_stidxs() {
        for t in 0..nt {
            let mut stack: Vec<u16> = vec![stidx.0];
            let mut n = 0;
            loop {
                match b.st.action(StIdx(*stack.last().unwrap()), TIdx(t)) {
                    Action::Reduce(p) => {
                        let k = grm.prod(p).len();
                        if k >= stack.len() {
                            break; // would pop the base or below
                        }
                        stack.truncate(stack.len() - k);
                        match b.st.goto(StIdx(*stack.last().unwrap()), grm.prod_to_rule(p)) {
                            Some(g) => stack.push(g.0),
                            None => break,
                        }
                        n += 1;
                        if n > 2000 {
                            return Some((stidx.0, t));
                        }
                    }
                    _ => break,
                }
            }
        }
    }
    None
}

pub fn has_unproductive(grm: &YaccGrammar<u16>) -> bool {
    min_lens(grm).iter().any(|m| m.is_none())
}

/// Stable textual digest of a grammar's productions (for distinctness counting).
pub fn prod_string(grm: &YaccGrammar<u16>, p: PIdx<u16>) -> String {
    grm.pp_prod(p)
}

// ---------------------------------------------------------------------------------------------
// Generators. Every generator returns grammar source text; token names are 't<k>'.
// ---------------------------------------------------------------------------------------------

fn header(r: &mut Rng, ntok: usize, prec_pct: u64, avoid_pct: u64) -> String {
    let mut s = String::from("%start R0\n");
    if r.chance(avoid_pct) {
        let n = 1 + r.below(2);
        s.push_str("%avoid_insert");
        for _ in 0..n {
            s.push_str(&format!(" 't{}'", r.below(ntok as u64)));
        }
        s.push('\n');
    }
    if r.chance(prec_pct) {
        for t in 0..ntok {
            if r.chance(50) {
                s.push_str(&format!("{} 't{}'\n", ["%left", "%right", "%nonassoc"][r.below(3) as usize], t));
            }
        }
    }
    s
}

/// Unconstrained random grammar (mostly P2, often with unproductive or unreachable rules).
pub fn gen_random(r: &mut Rng) -> String {
    let nt = 1 + r.below(6) as usize;
    let nr = 1 + r.below(5) as usize;
    let mut s = header(r, nt, 25, 20);
    s.push_str("%%\n");
    for ru in 0..nr {
        s.push_str(&format!("R{}: ", ru));
        let np = 1 + r.below(4);
        for p in 0..np {
            if p > 0 {
                s.push_str(" | ");
            }
            let len = if r.chance(15) { 0 } else { 1 + r.below(4) };
            for _ in 0..len {
                if r.chance(60) {
                    s.push_str(&format!("'t{}' ", r.below(nt as u64)));
                } else {
                    s.push_str(&format!("R{} ", r.below(nr as u64)));
                }
            }
        }
        s.push_str(";\n");
    }
    s
}

/// Grammars that are LR(1) by construction most of the time (filtered by `multi_action_cells`
/// afterwards): stratified expressions, lists, bracket nests, statements, nullable chains.
pub fn gen_template(r: &mut Rng) -> String {
    let mut tok = 0usize;
    let mut nt = |tok: &mut usize| {
        let t = *tok;
        *tok += 1;
        format!("'t{}'", t)
    };
    let mut rules: Vec<String> = Vec::new();
    let kind = r.below(6);
    match kind {
        0 => {
            // stratified expression grammar with 1..3 levels
            let levels = 1 + r.below(3) as usize;
            for l in 0..levels {
                let me = format!("R{}", l);
                let next = format!("R{}", l + 1);
                let nops = 1 + r.below(2);
                let mut alts = vec![];
                for _ in 0..nops {
                    let op = nt(&mut tok);
                    if r.chance(50) {
                        alts.push(format!("{me} {op} {next}"));
                    } else {
                        alts.push(format!("{next} {op} {me}"));
                    }
                }
                alts.push(next.clone());
                rules.push(format!("{me}: {};", alts.join(" | ")));
            }
            let atom = format!("R{}", levels);
            let mut alts = vec![nt(&mut tok)];
            if r.chance(70) {
                let (o, c) = (nt(&mut tok), nt(&mut tok));
                alts.push(format!("{o} R0 {c}"));
            }
            if r.chance(40) {
                let u = nt(&mut tok);
                alts.push(format!("{u} {atom}"));
            }
            if r.chance(30) {
                alts.push(nt(&mut tok));
            }
            rules.push(format!("{atom}: {};", alts.join(" | ")));
        }
        1 => {
            // lists: left or right recursive, optional separator, optional empty, nested items
            let sep = if r.chance(60) { Some(nt(&mut tok)) } else { None };
            let left = r.chance(50);
            let item = "R1";
            let rec = match (&sep, left) {
                (Some(s), true) => format!("R0 {s} {item}"),
                (Some(s), false) => format!("{item} {s} R0"),
                (None, true) => format!("R0 {item}"),
                (None, false) => format!("{item} R0"),
            };
            let base = if sep.is_none() && r.chance(50) { String::new() } else { item.to_string() };
            rules.push(format!("R0: {rec} | {base};"));
            let mut alts = vec![nt(&mut tok)];
            if r.chance(50) {
                alts.push(nt(&mut tok));
            }
            if r.chance(60) {
                let (o, c) = (nt(&mut tok), nt(&mut tok));
                alts.push(format!("{o} R0 {c}"));
                if !base.is_empty() && r.chance(50) {
                    alts.push(format!("{o} {c}"));
                }
            }
            rules.push(format!("R1: {};", alts.join(" | ")));
        }
        2 => {
            // bracket nests: S: (S) S | [S] S | x | eps
            let n = 1 + r.below(3);
            let mut alts = vec![];
            let tail = r.chance(50);
            for _ in 0..n {
                let (o, c) = (nt(&mut tok), nt(&mut tok));
                alts.push(if tail { format!("{o} R0 {c} R0") } else { format!("{o} R0 {c}") });
            }
            if r.chance(60) {
                alts.push(String::new());
            }
            if r.chance(60) || alts.iter().all(|a| !a.is_empty()) {
                alts.push(nt(&mut tok));
            }
            rules.push(format!("R0: {};", alts.join(" | ")));
        }
        3 => {
            // statements
            let id = nt(&mut tok);
            let mut alts = vec![];
            let semi = nt(&mut tok);
            let eq = nt(&mut tok);
            alts.push(format!("{id} {eq} R2 {semi}"));
            if r.chance(70) {
                let (i, t, f) = (nt(&mut tok), nt(&mut tok), nt(&mut tok));
                alts.push(format!("{i} R2 {t} R1 {f}"));
            }
            if r.chance(60) {
                let (w, d, o) = (nt(&mut tok), nt(&mut tok), nt(&mut tok));
                alts.push(format!("{w} R2 {d} R1 {o}"));
            }
            if r.chance(70) {
                let (o, c) = (nt(&mut tok), nt(&mut tok));
                alts.push(format!("{o} R0 {c}"));
            }
            let sl = if r.chance(50) { "R0: | R0 R1;" } else { "R0: R1 | R0 R1;" };
            rules.push(sl.to_string());
            rules.push(format!("R1: {};", alts.join(" | ")));
            if r.chance(50) {
                let plus = nt(&mut tok);
                rules.push(format!("R2: R2 {plus} R3 | R3;"));
                let n = nt(&mut tok);
                rules.push(format!("R3: {id} | {n};"));
            } else {
                let n = nt(&mut tok);
                rules.push(format!("R2: {id} | {n};"));
            }
        }
        4 => {
            // nullable chains: R0: R1 R2 'x' R3; R1: | 'a'; R2: | 'b' R2; R3: | 'c'
            let n = 2 + r.below(3) as usize;
            let mut body = vec![];
            for i in 1..=n {
                body.push(format!("R{}", i));
                if r.chance(40) {
                    body.push(nt(&mut tok));
                }
            }
            if r.chance(50) {
                body.push(nt(&mut tok));
            }
            rules.push(format!("R0: {};", body.join(" ")));
            for i in 1..=n {
                let t = nt(&mut tok);
                let alt = match r.below(4) {
                    0 => format!("R{i}: | {t};"),
                    1 => format!("R{i}: | {t} R{i};"),
                    2 => format!("R{i}: {t} | {t} {t2};", t2 = nt(&mut tok)),
                    _ => format!("R{i}: | R{i} {t};"),
                };
                rules.push(alt);
            }
        }
        _ => {
            // JSON-like values
            let (lb, rb, lc, rc, comma, colon, s, n) = (
                nt(&mut tok),
                nt(&mut tok),
                nt(&mut tok),
                nt(&mut tok),
                nt(&mut tok),
                nt(&mut tok),
                nt(&mut tok),
                nt(&mut tok),
            );
            rules.push(format!("R0: {s} | {n} | {lb} R1 {rb} | {lb} {rb} | {lc} R2 {rc} | {lc} {rc};"));
            rules.push(format!("R1: R0 | R1 {comma} R0;"));
            rules.push(format!("R2: R3 | R2 {comma} R3;"));
            rules.push(format!("R3: {s} {colon} R0;"));
        }
    }
    let ntok = tok.max(1);
    let mut s = header(r, ntok, 0, 25);
    s.push_str("%%\n");
    // Occasionally alias two tokens to provoke sharing (may turn the grammar into P2; the
    // population is decided by classification, not by the generator).
    let mut body = rules.join("\n");
    if ntok >= 3 && r.chance(20) {
        let a = r.below(ntok as u64);
        let b = r.below(ntok as u64);
        body = body.replace(&format!("'t{}'", a), &format!("'t{}'", b));
    }
    s.push_str(&body);
    s.push('\n');
    s
}

pub const CORPUS: &[(&str, &str)] = &[
    (
        "calc",
        "%start R0\n%%\nR0: R0 't0' R1 | R1;\nR1: R1 't1' R2 | R2;\nR2: 't2' R0 't3' | 't4';\n",
    ),
    (
        "calc-avoid",
        "%start R0\n%avoid_insert 't4'\n%%\nR0: R0 't0' R1 | R1;\nR1: R1 't1' R2 | R2;\nR2: 't2' R0 't3' | 't4';\n",
    ),
    (
        "calc-prec",
        "%start R0\n%left 't0'\n%left 't1'\n%%\nR0: R0 't0' R0 | R0 't1' R0 | 't2' R0 't3' | 't4';\n",
    ),
    (
        "corchuelo",
        "%start R0\n%%\nR0: 't0' R0 | 't1' R0 't2' | 't3';\n",
    ),
    (
        "corchuelo2",
        "%start R0\n%%\nR0: R1 't0' R0 | R1;\nR1: 't1' | 't2' R0 't3';\n",
    ),
    (
        "dangling-else",
        "%start R0\n%%\nR0: 't0' R1 't1' R0 | 't0' R1 't1' R0 't2' R0 | 't3';\nR1: 't4';\n",
    ),
    (
        "brackets",
        "%start R0\n%%\nR0: 't0' R0 't1' R0 | 't2' R0 't3' R0 | ;\n",
    ),
    (
        "seplist",
        "%start R0\n%%\nR0: R1 | R0 't0' R1;\nR1: 't1' | 't2' R0 't3' | 't2' 't3';\n",
    ),
    (
        "nullable-chain",
        "%start R0\n%%\nR0: R1 R2 't0' R3;\nR1: | 't1';\nR2: | 't2' R2;\nR3: | 't3';\n",
    ),
    ("unproductive-chain", "%start R0\n%%\nR0: 't0' R0;\n"),
    (
        "rstar",
        "%start R0\n%%\nR0: 't0' | 't0' R2;\nR2: 't0' 't0' | 't0' 't0' R2 't0';\n",
    ),
    (
        "empty-first-child",
        "%start R0\n%%\nR0: 't0' R1;\nR1: R2 't1';\nR2: ;\n",
    ),
    (
        "empty-middle-last",
        "%start R0\n%%\nR0: 't0' R1 't1' R2;\nR1: | 't2';\nR2: | 't3' R2;\n",
    ),
];

/// The canonical hidden-left-recursion grammar (C07 known finding): never executed in-process.
pub const HIDDEN_LEFT_REC: (&str, &[&str]) = (
    "%start R0\n%%\nR0: | R2 't2' R0 R2;\nR1: 't1' | R2 R2 't1' | R0;\nR2: R0 R1 't0' 't0' | ;\n",
    &["t2", "t2", "t2"],
);

/// Random derivation from rule `ridx`, bounded; returns token indices.
pub fn derive(grm: &YaccGrammar<u16>, ml: &[Option<u32>], r: &mut Rng, max_len: usize) -> Option<Vec<u16>> {
    let start = grm.prod(grm.start_prod())[0];
    let mut out = vec![];
    let mut work = vec![start];
    let mut steps = 0;
    while let Some(sym) = work.pop() {
        steps += 1;
        if steps > 4000 || out.len() > max_len * 2 {
            return None;
        }
        match sym {
            Symbol::Token(t) => out.push(t.0),
            Symbol::Rule(ri) => {
                ml[usize::from(ri)]?;
                let prods = grm.rule_to_prods(ri);
                // productive productions only
                let ok: Vec<PIdx<u16>> = prods
                    .iter()
                    .copied()
                    .filter(|p| {
                        grm.prod(*p).iter().all(|s| match s {
                            Symbol::Token(_) => true,
                            Symbol::Rule(x) => ml[usize::from(*x)].is_some(),
                        })
                    })
                    .collect();
                if ok.is_empty() {
                    return None;
                }
                let budget_left = out.len() + work.len() < max_len;
                let p = if budget_left && steps < 400 {
                    *r.pick(&ok)
                } else {
                    // cheapest production
                    *ok.iter()
                        .min_by_key(|p| {
                            grm.prod(**p)
                                .iter()
                                .map(|s| match s {
                                    Symbol::Token(_) => 1,
                                    Symbol::Rule(x) => ml[usize::from(*x)].unwrap(),
                                })
                                .sum::<u32>()
                        })
                        .unwrap()
                };
                for s in grm.prod(p).iter().rev() {
                    work.push(*s);
                }
            }
        }
    }
    Some(out)
}
