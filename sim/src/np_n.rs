//! Engine N, whole-program part: the `nimbleparse` binary (built from the current /repo tree by
//! `./check C19 ..`) run as a child process on generated lexer / grammar pairs whose token sets
//! differ, its stderr read back and every position in it checked against the files it names:
//! an echoed `N| text` line must be line N of the file the block is about, and the underline
//! below it must sit under one of the tokens the block is about.
use std::path::{Path, PathBuf};
use std::process::{Command, Stdio};

use serde_json::{json, Value};

use crate::rng::Rng;

pub fn binary() -> Option<PathBuf> {
    let p = match std::env::var_os("VERIF_NIMBLEPARSE") {
        Some(p) => PathBuf::from(p),
        None => {
            let exe = std::env::current_exe().ok()?;
            // .../sim/target/release/sim -> .../sim/target/np/release/nimbleparse
            exe.parent()?.parent()?.join("np/release/nimbleparse")
        }
    };
    p.is_file().then_some(p)
}

pub struct Case {
    pub lex: String,
    pub yacc: String,
    pub missing_from_lexer: Vec<String>,
    pub missing_from_parser: Vec<String>,
    /// Some(name): the lexer declares start state `name` twice; the report must underline both
    pub dup_state: Option<String>,
}

const NAMES: &[&str] = &["INT", "PLUS", "ÜBER", "LPAR", "RPAR", "IDENT", "Straße", "K_IF", "K2", "élan"];

pub fn generate(seed: u64) -> Case {
    let mut r = Rng::new(seed ^ 0x6e70);
    if r.chance(15) {
        // a lexer that is rejected: the same start state declared twice, with blanks or tabs
        // after the names on either line
        let name = r.pick(&["STR", "CMT", "Q", "Zustand"]).to_string();
        let trail = |r: &mut Rng| r.pick(&["", " ", "  ", " \t", "\t\t "]).to_string();
        let mut lex = String::new();
        for _ in 0..r.below(3) {
            lex.push('\n');
        }
        let first = if r.chance(50) { format!("%x OTHER {name}{}\n", trail(&mut r)) } else { format!("%x   {name}{}\n", trail(&mut r)) };
        lex.push_str(&first);
        for _ in 0..r.below(3) {
            lex.push('\n');
        }
        lex.push_str(&format!("%s {}{name}{}\n", if r.chance(50) { "  " } else { "" }, trail(&mut r)));
        lex.push_str("%%\n[0-9]+ \"INT\"\n[ \\t\\n]+ ;\n");
        let yacc = "%grmtools{yacckind: Original(YaccOriginalActionKind::GenericParseTree)}\n%start S\n%%\nS: \"INT\";\n".to_string();
        return Case { lex, yacc, missing_from_lexer: vec![], missing_from_parser: vec![], dup_state: Some(name) };
    }
    // which names the two files know
    let mut both = vec![];
    let mut only_l = vec![];
    let mut only_y = vec![];
    for n in NAMES {
        match r.below(10) {
            0..=4 => both.push(n.to_string()),
            5..=6 => only_l.push(n.to_string()),
            7 => only_y.push(n.to_string()),
            _ => {}
        }
    }
    if both.is_empty() {
        // (a name lives in exactly one of the three sets)
        only_l.retain(|n| n != "INT");
        only_y.retain(|n| n != "INT");
        both.push("INT".into());
    }
    let mut blank = |r: &mut Rng, s: &mut String| {
        for _ in 0..r.below(4) {
            if r.chance(30) {
                s.push_str("// filler\n");
            } else {
                s.push('\n');
            }
        }
    };
    // lexer
    let mut lex = String::new();
    for _ in 0..r.below(3) {
        lex.push('\n');
    }
    // half of the lexer files start with a %grmtools section (on one line or spread over several)
    if r.chance(50) {
        lex.push_str(if r.chance(50) { "%grmtools{lexerkind: LRNonStreamingLexer}\n" } else { "%grmtools {\n    lexerkind: LRNonStreamingLexer,\n    !case_insensitive,\n    size_limit: 10485760,\n}\n" });
        for _ in 0..r.below(3) {
            lex.push('\n');
        }
    }
    // four lexer files in ten declare a start state, and some of their rules then name it as
    // their target (`regex <+SX>"NAME"`): the name no longer follows the last blank directly
    let states = r.chance(40);
    if states {
        lex.push_str("%s SX\n");
    }
    lex.push_str("%%\n");
    let mut lnames: Vec<&String> = both.iter().chain(only_l.iter()).collect();
    for i in (1..lnames.len()).rev() {
        let j = r.below(i as u64 + 1) as usize;
        lnames.swap(i, j);
    }
    for (i, n) in lnames.iter().enumerate() {
        for _ in 0..r.below(3) {
            lex.push('\n');
        }
        let pad = " ".repeat(r.below(6) as usize);
        let target = if states && r.chance(50) { *r.pick(&["<+SX>", "<SX>", "<-SX>"]) } else { "" };
        lex.push_str(&format!("r{i}x{pad} {target}\"{n}\"\n"));
    }
    lex.push_str("[ \\t\\n]+ ;\n");
    // grammar
    let mut yacc = String::from("%grmtools{yacckind: Original(YaccOriginalActionKind::GenericParseTree)}\n");
    blank(&mut r, &mut yacc);
    yacc.push_str("%start S\n");
    let ynames: Vec<&String> = both.iter().chain(only_y.iter()).collect();
    // some tokens are declared, all are used
    let mut declared: Vec<&String> = vec![];
    for n in &ynames {
        if r.chance(40) {
            blank(&mut r, &mut yacc);
            yacc.push_str(&format!("%token \"{n}\"\n"));
            declared.push(n);
        }
    }
    // a declared token named again in %avoid_insert, before the remaining tokens first appear
    if !declared.is_empty() && r.chance(50) {
        blank(&mut r, &mut yacc);
        yacc.push_str(&format!("%avoid_insert \"{}\"\n", r.pick(&declared)));
    }
    blank(&mut r, &mut yacc);
    yacc.push_str("%%\n");
    blank(&mut r, &mut yacc);
    yacc.push_str("S:");
    for (i, n) in ynames.iter().enumerate() {
        if i > 0 {
            yacc.push_str(if r.chance(50) { "\n  |" } else { " |" });
        }
        yacc.push_str(&format!("{}\"{n}\"", " ".repeat(1 + r.below(4) as usize)));
    }
    yacc.push_str(" ;\n");
    Case { lex, yacc, missing_from_lexer: only_y, missing_from_parser: only_l, dup_state: None }
}

/// Run the binary; returns (class, detail) findings.
pub fn run_case(bin: &Path, case: &Case, dir: &Path) -> Result<Vec<(String, String)>, String> {
    std::fs::create_dir_all(dir).map_err(|e| e.to_string())?;
    let (lp, yp, ip) = (dir.join("case.l"), dir.join("case.y"), dir.join("input.txt"));
    std::fs::write(&lp, &case.lex).map_err(|e| e.to_string())?;
    std::fs::write(&yp, &case.yacc).map_err(|e| e.to_string())?;
    std::fs::write(&ip, "").map_err(|e| e.to_string())?;
    let out = Command::new(bin).args([&lp, &yp, &ip]).stdin(Stdio::null()).stdout(Stdio::null()).stderr(Stdio::piped()).output().map_err(|e| e.to_string())?;
    let err = String::from_utf8_lossy(&out.stderr).to_string();
    let mut findings = vec![];
    if out.status.code().is_none() || err.contains("panicked at") {
        findings.push(("nimbleparse-panic".to_string(), format!("nimbleparse ended abnormally ({:?}): {}", out.status, err.chars().take(300).collect::<String>())));
        return Ok(findings);
    }
    // walk the report
    let lines: Vec<&str> = err.lines().collect();
    let dup_names: Vec<String> = case.dup_state.iter().cloned().collect();
    let mut cur: Option<(&str, &str, &Vec<String>)> = None; // (what, file text, names the block is about)
    let mut seen: Vec<(String, String)> = vec![]; // (block, token)
    let mut i = 0;
    while i < lines.len() {
        let l = lines[i];
        if l.contains("in the grammar in ") {
            cur = Some(("missing from lexer", &case.yacc, &case.missing_from_lexer));
        } else if l.contains("in the lexer in ") {
            cur = Some(("missing from parser", &case.lex, &case.missing_from_parser));
        } else if case.dup_state.is_some() && l.contains("case.l") && !l.contains("| ") {
            cur = Some(("duplicate start state", &case.lex, &dup_names));
        } else if let (Some((what, text, names)), Some((num, rest))) = (cur, l.split_once("| ")) {
            // nested messages are indented as a block: the same indent precedes the underline
            let indent = num.chars().take_while(|c| *c == ' ').count();
            let num = &num[indent..];
            if let Ok(n) = num.parse::<usize>() {
                if !num.is_empty() && num.chars().all(|c| c.is_ascii_digit()) {
                    let want = text.split('\n').nth(n - 1);
                    if want != Some(rest) {
                        findings.push(("nimbleparse-echoed-line".to_string(), format!("block '{what}': echoed line {n} is {:?}, line {n} of that file is {:?}; stderr {:?}", rest, want, err)));
                    } else if let Some(ul) = lines.get(i + 1) {
                        // the underline: spaces up to the column, then carets
                        // a `...` gutter mark (rows not on consecutive lines) stands where blanks would
                        let ul = &ul.replacen("...", "   ", 1);
                        let lead = ul.chars().take_while(|c| *c == ' ').count();
                        let carets = ul.chars().skip(lead).take_while(|c| *c == '^').count();
                        let col = lead.saturating_sub(indent + num.len() + 2);
                        let under: String = rest.chars().skip(col).take(carets).collect();
                        let tok = under.trim_matches('"').trim_matches('\'').to_string();
                        if carets == 0 || !names.contains(&tok) {
                            findings.push(("nimbleparse-underline".to_string(), format!("block '{what}': line {n} {:?} is underlined at column {} for {carets} columns ({:?}), which is none of {:?}; stderr {:?}", rest, col + 1, under, names, err)));
                        } else {
                            seen.push((what.to_string(), tok));
                        }
                        i += 1;
                    }
                }
            }
        }
        i += 1;
    }
    if let Some(name) = &case.dup_state {
        let cnt = seen.iter().filter(|(w, t)| w == "duplicate start state" && t == name).count();
        if cnt != 2 {
            findings.push(("nimbleparse-report-incomplete".to_string(), format!("start state {name:?} is declared twice; the report underlines it {cnt} times; stderr {:?}", err)));
        }
        return Ok(findings);
    }
    for (what, names) in [("missing from lexer", &case.missing_from_lexer), ("missing from parser", &case.missing_from_parser)] {
        // the second block is only printed when the program gets that far (it exits after it)
        for n in names {
            let cnt = seen.iter().filter(|(w, t)| w == what && t == n).count();
            if cnt != 1 {
                findings.push(("nimbleparse-report-incomplete".to_string(), format!("token {n:?} ({what}) is reported {cnt} times; stderr {:?}", err)));
            }
        }
    }
    Ok(findings)
}

pub fn replay(v: &Value, path: &str) -> i32 {
    let Some(bin) = binary() else {
        eprintln!("harness error: nimbleparse binary not built (run through ./check)");
        return 2;
    };
    let seed = v["case_seed"].as_u64().unwrap_or(0);
    let class = v["class"].as_str().unwrap_or("");
    let dir = crate::common::scratch_base().join("np-replay");
    // the case as recorded (the generator may have moved on since), else regenerated from its seed
    let strs = |k: &str| -> Option<Vec<String>> { v[k].as_array().map(|a| a.iter().filter_map(|x| x.as_str().map(|s| s.to_string())).collect()) };
    let case = match (v["lexer"].as_str(), v["grammar"].as_str(), strs("missing_from_lexer"), strs("missing_from_parser")) {
        (Some(l), Some(y), Some(ml), Some(mp)) => Case { lex: l.to_string(), yacc: y.to_string(), missing_from_lexer: ml, missing_from_parser: mp, dup_state: v["dup_state"].as_str().map(|s| s.to_string()) },
        _ => generate(seed),
    };
    let r = run_case(&bin, &case, &dir);
    let _ = std::fs::remove_dir_all(&dir);
    match r {
        Ok(fs) => {
            for (c, d) in &fs {
                println!("finding: class={c} :: {d}");
            }
            if fs.iter().any(|(c, _)| c == class) {
                println!("VIOLATION property=C19 replay={path} class={class}");
                1
            } else {
                println!("replay: class {class} did not reproduce");
                0
            }
        }
        Err(e) => {
            eprintln!("harness error: {e}");
            2
        }
    }
}

pub fn replay_json(class: &str, seed: u64, case_seed: u64, cnt: u64, detail: &str, case: &Case) -> Value {
    json!({"engine": "N-np", "property": "C19", "class": class, "seed": seed, "case_seed": case_seed, "occurrences_in_run": cnt, "detail": detail, "lexer": case.lex, "grammar": case.yacc,
           "missing_from_lexer": case.missing_from_lexer, "missing_from_parser": case.missing_from_parser, "dup_state": case.dup_state})
}
