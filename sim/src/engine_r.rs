//! Engine R: simulation of parsing with CPCT+ error recovery under a simulated monotonic clock
//! and a simulated per-process hash seed. Serves C05, C06, C07, C08.
use std::cell::{Cell, RefCell};
use std::collections::{BTreeMap, BTreeSet};

use cfgrammar::{RIdx, Span, Symbol, TIdx};
use lrpar::{parser::AStackType, LexParseError, Lexeme, NonStreamingLexer, ParseRepair, RTParserBuilder, RecoveryKind};
use serde::{Deserialize, Serialize};

use crate::gram::{self, Built};
use crate::lexstub::{Lx, StubLexer, LT};
use crate::reflr::{self, expected_set, parse_tree, ref_search, strip, Ctx, InTok, Rp, SearchCaps, SearchOutcome, Stacks, Tree, TreeParse};
use crate::rng::{fnv, fnv_add, Rng};
use crate::seams::{sim_process, sim_process_with_stack, ClockPolicy, SimOutcome, SimStats, SUBJECT_STACK};

pub const BUDGET_NS: u64 = 500_000_000;
pub const ACTION_CALL_CAP: usize = 300_000;
pub const PARAM_MAGIC: u64 = 0xC08_C08;

#[derive(Serialize, Deserialize, Clone, Debug, PartialEq)]
pub struct RScenario {
    pub origin: String,
    pub grammar: String,
    /// token names, e.g. "t3"
    pub tokens: Vec<String>,
    pub gaps: Vec<u8>,
    /// token name -> cost (default 1)
    pub costs: BTreeMap<String, u8>,
    pub hash_seed: u64,
    pub clock: ClockPolicy,
    /// "tick" | "frac<1" | "frac>1" | "jump" | "jump2" (informational; the policy itself is in `clock`)
    pub policy_class: String,
    /// clock reads of the fault-free run this variant was derived from (informational)
    #[serde(default)]
    pub base_reads: u64,
    /// lexeme i is a real zero-width lexeme
    #[serde(default)]
    pub zero_width: Vec<bool>,
    /// injected lexing fault: the lexer reports an error in place of lexeme k (k = number of
    /// lexemes: after the last one) and then stops (false) or carries on (true)
    #[serde(default)]
    pub lex_error: Option<(usize, bool)>,
}

#[derive(Clone, Debug, Serialize, Deserialize)]
pub struct Finding {
    pub property: String,
    pub class: String,
    pub detail: String,
    /// Some(id) if this matches a known-finding signature
    pub known: Option<String>,
}

#[derive(Default, Clone, Debug)]
pub struct Probes(pub BTreeMap<&'static str, u64>);
impl Probes {
    pub fn hit(&mut self, k: &'static str) {
        *self.0.entry(k).or_insert(0) += 1;
    }
    pub fn add(&mut self, k: &'static str, n: u64) {
        *self.0.entry(k).or_insert(0) += n;
    }
    pub fn merge(&mut self, o: &Probes) {
        for (k, v) in &o.0 {
            *self.0.entry(k).or_insert(0) += v;
        }
    }
}

#[derive(Default, Debug)]
pub struct RunReport {
    pub discarded: Option<String>,
    pub findings: Vec<Finding>,
    pub probes: Probes,
    pub p1: bool,
    pub n_errors: usize,
    pub clock_reads: u64,
    pub elapsed_ns: u64,
    /// digest of everything observable in the run (determinism self-test)
    pub log_hash: u64,
    /// digest identifying the scenario
    pub scenario_digest: u64,
    /// abstract-state digests reached (grammar, error configuration, policy class, decile, outcome)
    pub states: Vec<u64>,
    pub exercised: [bool; 4], // nontrivial for C05, C06, C07, C08
}

// ---------------------------------------------------------------------------------------------
// Real runs
// ---------------------------------------------------------------------------------------------

#[derive(Clone, Debug, PartialEq, Eq)]
pub enum RRp {
    Ins(u16),
    Del(Lx),
    Sh(Lx),
}
impl RRp {
    fn plain(&self) -> Rp {
        match self {
            RRp::Ins(t) => Rp::Ins(*t),
            RRp::Del(_) => Rp::Del,
            RRp::Sh(_) => Rp::Sh,
        }
    }
}

#[derive(Clone, Debug, PartialEq, Eq)]
pub struct RealErr {
    pub lexeme: Lx,
    pub stidx: u16,
    pub repairs: Vec<Vec<RRp>>,
}

fn conv_errs(errs: Vec<LexParseError<u16, LT>>) -> Vec<RealErr> {
    let mut out = vec![];
    for e in errs {
        if let LexParseError::ParseError(pe) = e {
            let repairs = pe
                .repairs()
                .iter()
                .map(|r| {
                    r.iter()
                        .map(|x| match x {
                            ParseRepair::Insert(t) => RRp::Ins(t.0),
                            ParseRepair::Delete(l) => RRp::Del(*l),
                            ParseRepair::Shift(l) => RRp::Sh(*l),
                        })
                        .collect()
                })
                .collect();
            out.push(RealErr { lexeme: *pe.lexeme(), stidx: pe.stidx().0, repairs });
        }
    }
    out
}

#[derive(Clone, Debug)]
pub enum Arg {
    Lex(Lx),
    Val(usize),
}
#[derive(Clone, Debug)]
pub struct Rec {
    pub pidx: u16,
    pub ridx: u16,
    pub span: (usize, usize),
    pub args: Vec<Arg>,
    pub param: u64,
}

pub struct MapRun {
    pub value: Option<Tree>,
    pub errors: Vec<RealErr>,
    /// the fterm / fnonterm callbacks in the order they were made: (true, start, token) for a
    /// terminal, (false, 0, rule) for a nonterminal
    pub events: Vec<(bool, usize, u16)>,
    /// lexing errors in the returned error list
    pub lex_errors: usize,
    /// iteration order of a probe HashSet created right after the parse: pins down the hash keys
    /// (seed *and* per-thread RandomState counter) the simulated process ended up with, so that the
    /// determinism self-test notices if they depend on the host process's history
    pub hash_probe: u64,
}
pub struct ActRun {
    pub value: Option<usize>,
    pub errors: Vec<RealErr>,
    /// lexing errors in the returned error list
    pub lex_errors: usize,
    pub recs: Vec<Rec>,
    /// argument-passing anomalies noticed by the recorder itself (class, detail)
    pub notes: Vec<(String, String)>,
}

/// `sim r-deep <n> <stack MB>`: the real parser alone (unit actions, nothing of the harness's own
/// tree handling) on `n` openers of `R0: 't0' R0 | 't1';` - an error at end of input under a
/// parse stack `n` deep - on a stack of the given size. Returns whether the parse came back.
pub fn run_deep_stack_probe(n: usize, stack_mb: usize) -> bool {
    let Ok(b) = gram::build("%start R0\n%%\nR0: 't0' R0 | 't1';\n") else { return true };
    let t0 = b.grm.token_idx("t0").unwrap().0;
    let toks: Vec<u16> = vec![t0; n];
    let lexer = StubLexer::new(&toks, &[], &[]);
    let clock = ClockPolicy { tick_ns: 1000, jumps: vec![] };
    let (r, _) = sim_process_with_stack(7, Some(&clock), stack_mb << 20, || {
        let lx: &StubLexer = &lexer;
        type AF<'a, 'b, 'i> = &'a dyn Fn(RIdx<u16>, &'b dyn NonStreamingLexer<'i, LT>, Span, std::vec::Drain<AStackType<Lx, ()>>, ());
        let unit = |_: RIdx<u16>, _: &dyn NonStreamingLexer<LT>, _: Span, _: std::vec::Drain<AStackType<Lx, ()>>, _: ()| {};
        let nprods = usize::from(b.grm.prods_len());
        let actions: Vec<AF> = (0..nprods).map(|_| &unit as AF).collect();
        let (v, errs) = RTParserBuilder::<u16, LT>::new(&b.grm, &b.st).recoverer(RecoveryKind::CPCTPlus).parse_actions(&lx, &actions, ());
        (v.is_some(), errs.len())
    });
    match r {
        SimOutcome::Ok((v, e)) => {
            println!("deep-stack probe: n={n} stack={stack_mb}MB returned value={v} errors={e}");
            true
        }
        SimOutcome::Panic(m) => {
            println!("deep-stack probe: n={n} panicked: {m}");
            false
        }
    }
}

/// `sim r-chain <stack MB>`: the real parser alone on a seven-lexeme input for which recovery can
/// insert tokens for ever (`R0: R1 't3' R0 | 't0' | R0 't3'; R1: R0 | 't3' R1;`), under a clock
/// fast enough (1.5 us per read: 333 000 reads in the budget) for the search to build repair
/// chains as long as the cost type allows before the deadline. Returns whether the parse came back.
pub fn run_long_chain_probe(stack_mb: usize) -> bool {
    let Ok(b) = gram::build("%start R0\n%%\nR0: R1 't3' R0 | 't0' | R0 't3';\nR1: R0 | 't3' R1;\n") else { return true };
    let t = |n: &str| b.grm.token_idx(n).unwrap().0;
    let toks: Vec<u16> = vec![t("t3"), t("t3"), t("t3"), t("t0"), t("t0"), t("t3"), t("t3")];
    let lexer = StubLexer::new(&toks, &[], &[]);
    let clock = ClockPolicy { tick_ns: 1500, jumps: vec![] };
    let (r, st) = sim_process_with_stack(12, Some(&clock), stack_mb << 20, || {
        let lx: &StubLexer = &lexer;
        type AF<'a, 'b, 'i> = &'a dyn Fn(RIdx<u16>, &'b dyn NonStreamingLexer<'i, LT>, Span, std::vec::Drain<AStackType<Lx, ()>>, ());
        let unit = |_: RIdx<u16>, _: &dyn NonStreamingLexer<LT>, _: Span, _: std::vec::Drain<AStackType<Lx, ()>>, _: ()| {};
        let nprods = usize::from(b.grm.prods_len());
        let actions: Vec<AF> = (0..nprods).map(|_| &unit as AF).collect();
        let (v, errs) = RTParserBuilder::<u16, LT>::new(&b.grm, &b.st).recoverer(RecoveryKind::CPCTPlus).parse_actions(&lx, &actions, ());
        (v.is_some(), errs.len())
    });
    match r {
        SimOutcome::Ok((v, e)) => {
            println!("long-chain probe: stack={stack_mb}MB returned value={v} errors={e} after {} clock reads", st.clock_reads);
            true
        }
        SimOutcome::Panic(m) => {
            println!("long-chain probe: panicked: {m}");
            false
        }
    }
}

/// Reductions beyond which a run is taken to loop (hidden left recursion): an acyclic grammar
/// reduces at most (rules + 1) times per stack entry, and inserts are bounded by the cost cap.
fn call_cap_for(b: &Built, lexer: &StubLexer) -> usize {
    ACTION_CALL_CAP + lexer.lexemes.len() * 4 * (usize::from(b.grm.rules_len()) + 1)
}

fn real_parse_map(b: &Built, lexer: &StubLexer, costs: &[u8], hash_seed: u64, clock: &ClockPolicy) -> (SimOutcome<MapRun>, SimStats) {
    sim_process_with_stack(hash_seed, Some(clock), SUBJECT_STACK, || {
        let calls = Cell::new(0usize);
        let call_cap = call_cap_for(b, lexer);
        let events: RefCell<Vec<(bool, usize, u16)>> = RefCell::new(vec![]);
        let cf = |t: TIdx<u16>| costs[usize::from(t)];
        let lx: &StubLexer = lexer;
        // the two setters commute: which comes first alternates with the scenario's hash seed
        let pb = RTParserBuilder::<u16, LT>::new(&b.grm, &b.st);
        let pb = if hash_seed & 1 == 0 { pb.recoverer(RecoveryKind::CPCTPlus).term_costs(&cf) } else { pb.term_costs(&cf).recoverer(RecoveryKind::CPCTPlus) };
        let (v, errs) = pb
            .parse_map(
                &lx,
                &|l: Lx| {
                    events.borrow_mut().push((true, l.start, l.tok_id));
                    Tree::Term { tok: l.tok_id, start: l.start, len: l.len, faulty: l.faulty }
                },
                &|ridx: RIdx<u16>, kids: Vec<Tree>| {
                    events.borrow_mut().push((false, 0, ridx.0));
                    calls.set(calls.get() + 1);
                    if calls.get() > call_cap {
                        panic!("HARNESS-LOOP-GUARD: more than {call_cap} reductions");
                    }
                    Tree::Nonterm { ridx: ridx.0, pidx: None, kids }
                },
            );
        let probe: Vec<u32> = (0..16u32).collect::<std::collections::HashSet<u32>>().into_iter().collect();
        let hash_probe = fnv(&probe.iter().flat_map(|x| x.to_le_bytes()).collect::<Vec<u8>>());
        let lex_errors = errs.iter().filter(|e| matches!(e, LexParseError::LexError(_))).count();
        MapRun { value: v, errors: conv_errs(errs), events: events.into_inner(), lex_errors, hash_probe }
    })
}

fn real_parse_actions(b: &Built, lexer: &StubLexer, costs: &[u8], hash_seed: u64, clock: &ClockPolicy, rk: RecoveryKind) -> (SimOutcome<ActRun>, SimStats) {
    sim_process_with_stack(hash_seed, Some(clock), SUBJECT_STACK, || {
        let recs: RefCell<Vec<Rec>> = RefCell::new(vec![]);
        let call_cap = call_cap_for(b, lexer);
        let cf = |t: TIdx<u16>| costs[usize::from(t)];
        let lx: &StubLexer = lexer;
        let nprods = usize::from(b.grm.prods_len());
        type AF<'a, 'b, 'i> = &'a dyn Fn(
            RIdx<u16>,
            &'b dyn NonStreamingLexer<'i, LT>,
            Span,
            std::vec::Drain<AStackType<Lx, usize>>,
            u64,
        ) -> usize;
        let closures: Vec<Box<dyn Fn(RIdx<u16>, &dyn NonStreamingLexer<LT>, Span, std::vec::Drain<AStackType<Lx, usize>>, u64) -> usize + '_>> = (0..nprods)
            .map(|p| {
                let recs = &recs;
                Box::new(move |ridx: RIdx<u16>, _lexer: &dyn NonStreamingLexer<LT>, span: Span, args: std::vec::Drain<AStackType<Lx, usize>>, param: u64| {
                    let args: Vec<Arg> = args
                        .map(|a| match a {
                            AStackType::ActionType(v) => Arg::Val(v),
                            AStackType::Lexeme(l) => Arg::Lex(l),
                        })
                        .collect();
                    let mut r = recs.borrow_mut();
                    if r.len() > call_cap {
                        panic!("HARNESS-LOOP-GUARD: more than {call_cap} reductions");
                    }
                    r.push(Rec { pidx: p as u16, ridx: ridx.0, span: (span.start(), span.end()), args, param });
                    r.len() - 1
                }) as Box<dyn Fn(RIdx<u16>, &dyn NonStreamingLexer<LT>, Span, std::vec::Drain<AStackType<Lx, usize>>, u64) -> usize + '_>
            })
            .collect();
        let actions: Vec<AF> = closures.iter().map(|c| &**c as AF).collect();
        let pb = RTParserBuilder::<u16, LT>::new(&b.grm, &b.st);
        let pb = if hash_seed & 1 == 0 { pb.recoverer(rk).term_costs(&cf) } else { pb.term_costs(&cf).recoverer(rk) };
        let (v, errs) = pb.parse_actions(&lx, &actions, PARAM_MAGIC);
        let lex_errors = errs.iter().filter(|e| matches!(e, LexParseError::LexError(_))).count();
        let errors = conv_errs(errs);
        drop(actions);
        drop(closures);
        ActRun { value: v, errors, lex_errors, recs: recs.into_inner(), notes: vec![] }
    })
}

/// C08's last sentence through the public API: `parse_generictree` and `parse_actions` with
/// `action_generictree` for every production, as the same simulated process twice;
/// Some(description) if the two results differ.
#[allow(deprecated)]
fn real_generictree_both_ways(b: &Built, lexer: &StubLexer, costs: &[u8], hash_seed: u64, clock: &ClockPolicy) -> Result<Option<String>, String> {
    use lrpar::Node;
    fn size(n: &Node<Lx, u16>) -> usize {
        match n {
            Node::Term { .. } => 1,
            Node::Nonterm { nodes, .. } => 1 + nodes.iter().map(size).sum::<usize>(),
        }
    }
    let (r1, _) = sim_process_with_stack(hash_seed, Some(clock), SUBJECT_STACK, || {
        let cf = |t: TIdx<u16>| costs[usize::from(t)];
        let lx: &StubLexer = lexer;
        let (t, e) = RTParserBuilder::<u16, LT>::new(&b.grm, &b.st).recoverer(RecoveryKind::CPCTPlus).term_costs(&cf).parse_generictree(&lx);
        (t, conv_errs(e))
    });
    let (r2, _) = sim_process_with_stack(hash_seed, Some(clock), SUBJECT_STACK, || {
        let cf = |t: TIdx<u16>| costs[usize::from(t)];
        let lx: &StubLexer = lexer;
        type GA<'a, 'b, 'i> = &'a dyn Fn(RIdx<u16>, &'b dyn NonStreamingLexer<'i, LT>, Span, std::vec::Drain<AStackType<Lx, Node<Lx, u16>>>, ()) -> Node<Lx, u16>;
        let nprods = usize::from(b.grm.prods_len());
        let actions: Vec<GA> = (0..nprods).map(|_| &lrpar::action_generictree::<u16, LT> as GA).collect();
        let (t, e) = RTParserBuilder::<u16, LT>::new(&b.grm, &b.st).recoverer(RecoveryKind::CPCTPlus).term_costs(&cf).parse_actions(&lx, &actions, ());
        (t, conv_errs(e))
    });
    match (r1, r2) {
        (SimOutcome::Ok((t1, e1)), SimOutcome::Ok((t2, e2))) => {
            if e1 != e2 {
                return Ok(Some(format!("parse_generictree reports {} errors, parse_actions with action_generictree {}", e1.len(), e2.len())));
            }
            if t1 != t2 {
                return Ok(Some(format!("parse_generictree gives {} nodes, parse_actions with action_generictree {} nodes (same errors and repairs reported)", t1.as_ref().map(size).unwrap_or(0), t2.as_ref().map(size).unwrap_or(0))));
            }
            Ok(None)
        }
        (SimOutcome::Panic(m), _) | (_, SimOutcome::Panic(m)) => Err(m),
    }
}

// ---------------------------------------------------------------------------------------------
// Scenario execution + oracles
// ---------------------------------------------------------------------------------------------

pub struct Prepared {
    pub built: Built,
    pub toks: Vec<u16>,
    pub costs: Vec<u8>,
    pub p1: bool,
    pub multi_cells: usize,
}

pub fn prepare(sc: &RScenario) -> Result<Prepared, String> {
    let (r, _) = sim_process(sc.hash_seed, None, || gram::build(&sc.grammar));
    let built = match r {
        SimOutcome::Ok(Ok(b)) => b,
        SimOutcome::Ok(Err(e)) => return Err(e),
        SimOutcome::Panic(m) => return Err(format!("builder panicked: {m}")),
    };
    if gram::has_cycle(&built.grm) {
        return Err("grammar has a derivation cycle (outside C07's envelope)".into());
    }
    let mut toks = vec![];
    for n in &sc.tokens {
        match built.grm.token_idx(n) {
            Some(t) if t != built.grm.eof_token_idx() => toks.push(t.0),
            _ => return Err(format!("unknown token {n}")),
        }
    }
    let nt = gram::ntokens(&built.grm);
    let mut costs = vec![1u8; nt];
    for (n, c) in &sc.costs {
        if let Some(t) = built.grm.token_idx(n) {
            if *c == 0 {
                return Err("zero cost".into());
            }
            costs[usize::from(t)] = *c;
        }
    }
    let multi_cells = gram::multi_action_cells(&built);
    Ok(Prepared { built, toks, costs, p1: multi_cells == 0, multi_cells })
}

fn scenario_digest(sc: &RScenario) -> u64 {
    let mut h = fnv(sc.grammar.as_bytes());
    for t in &sc.tokens {
        h = fnv_add(h, t.as_bytes());
        h = fnv_add(h, b",");
    }
    for (k, v) in &sc.costs {
        h = fnv_add(h, k.as_bytes());
        h = fnv_add(h, &[*v]);
    }
    for z in &sc.zero_width {
        h = fnv_add(h, &[*z as u8 + 7]);
    }
    if let Some((k, g)) = sc.lex_error {
        h = fnv_add(h, format!("lexerr{k}{g}").as_bytes());
    }
    h = fnv_add(h, &sc.hash_seed.to_le_bytes());
    h = fnv_add(h, &sc.clock.tick_ns.to_le_bytes());
    for (k, d) in &sc.clock.jumps {
        h = fnv_add(h, &k.to_le_bytes());
        h = fnv_add(h, &d.to_le_bytes());
    }
    h
}

fn fmt_seq(seq: &[Rp]) -> String {
    seq.iter()
        .map(|r| match r {
            Rp::Ins(t) => format!("I{t}"),
            Rp::Del => "D".into(),
            Rp::Sh => "S".into(),
        })
        .collect::<Vec<_>>()
        .join(",")
}

struct Judge<'a> {
    rep: &'a mut RunReport,
    p1: bool,
}
impl Judge<'_> {
    fn viol(&mut self, prop: &str, class: &str, detail: String) {
        self.rep.findings.push(Finding { property: prop.into(), class: class.into(), detail, known: None });
    }
    fn known(&mut self, prop: &str, class: &str, id: &str, detail: String) {
        self.rep.findings.push(Finding { property: prop.into(), class: class.into(), detail, known: Some(id.into()) });
    }
}

pub type ActRunner<'a> = &'a (dyn Fn(&Built, &StubLexer, &[u8], u64, &ClockPolicy) -> (SimOutcome<ActRun>, SimStats) + Sync);

pub struct ExecOpts<'a> {
    pub caps: SearchCaps,
    /// replaces `RTParserBuilder::parse_actions` with recording closures by another way of
    /// running actions (gen_c08: the parser generated at compile time, with its wrappers)
    pub act_runner: Option<ActRunner<'a>>,
}
impl Default for ExecOpts<'_> {
    fn default() -> Self {
        ExecOpts { caps: SearchCaps::default(), act_runner: None }
    }
}

/// The canonical hidden-left-recursion scenario, executed for real (no reference, no guard other
/// than the caller's address-space limit and timeout): returns normally only if the LR driver
/// terminates on it.
pub fn run_canonical_loop() -> bool {
    let (g, toks) = gram::HIDDEN_LEFT_REC;
    let sc = RScenario {
        origin: "canonical:hidden-left-recursion".into(),
        grammar: g.to_string(),
        tokens: toks.iter().map(|s| s.to_string()).collect(),
        gaps: vec![],
        costs: BTreeMap::new(),
        hash_seed: 1,
        clock: ClockPolicy { tick_ns: 50_000, jumps: vec![] },
        policy_class: "tick".into(),
        base_reads: 0,
        zero_width: vec![],
        lex_error: None,
    };
    let Ok(prep) = prepare(&sc) else { return true };
    let lexer = StubLexer::new(&prep.toks, &sc.gaps, &sc.zero_width);
    let (r, _) = real_parse_map(&prep.built, &lexer, &prep.costs, sc.hash_seed, &sc.clock);
    matches!(r, SimOutcome::Ok(_))
}

/// Execute one scenario: reference first, then the real parser twice (parse_map, parse_actions)
/// as simulated processes, then every oracle.
pub fn execute(sc: &RScenario, opts: &ExecOpts) -> RunReport {
    let mut rep = RunReport { scenario_digest: scenario_digest(sc), ..Default::default() };
    let prep = match prepare(sc) {
        Ok(p) => p,
        Err(e) => {
            rep.discarded = Some(e);
            return rep;
        }
    };
    rep.p1 = prep.p1;
    let b = &prep.built;
    let grm = &b.grm;
    let ctx = Ctx::new(grm, &b.st, &prep.toks, &prep.costs);
    let mut ss = Stacks::new();
    let start_stack = ss.from_slice(&[b.st.start_state().0]);
    let mut lexer = StubLexer::new(&prep.toks, &sc.gaps, &sc.zero_width);
    let n = prep.toks.len();
    let gdig = fnv(sc.grammar.as_bytes());
    if let (Some(le), None) = (sc.lex_error, opts.act_runner) {
        if gram::reduction_loop_witness(b).is_some() {
            rep.discarded = Some("lexing fault on a table with a reduction loop".into());
            return rep;
        }
        lexer.err_at = Some(le);
        return execute_lexerr(rep, sc, &prep, &lexer);
    }

    // ---- tables with a statically detectable endless reduction chain are never run in-process --
    if let Some((q, t)) = gram::reduction_loop_witness(b) {
        return loop_scenario(rep, &prep, &format!("in state {q} under lookahead token {t} the table demands an endless chain of reductions"));
    }

    // ---- pre-vet: plain parse to the first error, reference search there --------------------
    let (k0, st0, acc0) = ctx.parse_from(&mut ss, start_stack, 0, usize::MAX);
    if ctx.looped.get() {
        return loop_scenario(rep, &prep, "reference LR loop before the first error");
    }
    let mut first_search: Option<SearchOutcome> = None;
    if !acc0 {
        let so = ref_search(&ctx, &mut ss, st0, k0, &opts.caps);
        if ctx.looped.get() {
            return loop_scenario(rep, &prep, "reference search hit a reduction loop at the first error");
        }
        first_search = Some(so);
    }

    // ---- real runs ---------------------------------------------------------------------------
    let (ao, astats) = match opts.act_runner {
        Some(r) => r(b, &lexer, &prep.costs, sc.hash_seed, &sc.clock),
        None => real_parse_actions(b, &lexer, &prep.costs, sc.hash_seed, &sc.clock, RecoveryKind::CPCTPlus),
    };
    let (mo, mstats) = if opts.act_runner.is_some() {
        // A differently built parser (the generated one) creates a different number of
        // RandomStates before recovery runs, so it may legitimately choose another of the equally
        // ranked repairs than `parse_map` would: it is judged on its own, with the tree its action
        // calls build standing in for the generic tree.
        match &ao {
            SimOutcome::Ok(a) => {
                let value = a.value.filter(|v| *v < a.recs.len()).map(|v| build_tree(&a.recs, v));
                (SimOutcome::Ok(MapRun { value, errors: a.errors.clone(), events: vec![], lex_errors: a.lex_errors, hash_probe: 0 }), astats.clone())
            }
            SimOutcome::Panic(m) => (SimOutcome::Panic(m.clone()), astats.clone()),
        }
    } else {
        real_parse_map(b, &lexer, &prep.costs, sc.hash_seed, &sc.clock)
    };
    rep.clock_reads = mstats.clock_reads;
    rep.elapsed_ns = mstats.elapsed_ns;
    let mut lh = fnv(&mstats.clock_reads.to_le_bytes());
    lh = fnv_add(lh, &mstats.elapsed_ns.to_le_bytes());
    lh = fnv_add(lh, &mstats.entropy_draws.to_le_bytes());
    lh = fnv_add(lh, &astats.clock_reads.to_le_bytes());
    lh = fnv_add(lh, &astats.elapsed_ns.to_le_bytes());
    let mut j = Judge { p1: prep.p1, rep: &mut rep };

    let map = match mo {
        SimOutcome::Ok(m) => m,
        SimOutcome::Panic(msg) => {
            j.rep.log_hash = fnv_add(lh, msg.as_bytes());
            j.rep.exercised[2] = true;
            classify_panic(&mut j, &prep, sc, &msg, "parse_map");
            return rep;
        }
    };
    let act = match ao {
        SimOutcome::Ok(m) => m,
        SimOutcome::Panic(msg) => {
            j.rep.log_hash = fnv_add(lh, msg.as_bytes());
            j.rep.exercised[2] = true;
            classify_panic(&mut j, &prep, sc, &msg, "parse_actions");
            return rep;
        }
    };
    lh = fnv_add(lh, format!("{:?}{:?}{:?}{}", map.value, map.errors, act.value, map.hash_probe).as_bytes());
    lh = fnv_add(lh, format!("{:?}", act.recs).as_bytes());
    j.rep.log_hash = lh;
    j.rep.n_errors = map.errors.len();

    // The two executions are the same simulated process twice: they must agree exactly.
    if map.errors != act.errors {
        j.viol("C08", "actions-vs-map-errors", format!("parse_map errors {:?} != parse_actions errors {:?}", map.errors, act.errors));
    }
    if mstats.clock_reads != astats.clock_reads {
        j.viol("C08", "actions-vs-map-clock", format!("parse_map read the clock {} times, parse_actions {}", mstats.clock_reads, astats.clock_reads));
    }

    // parse_map's callbacks come in the order of the reductions: for each node of the final tree,
    // bottom-up and left to right, its terminal children left to right and then the node itself.
    if opts.act_runner.is_none() {
        if let Some(t) = &map.value {
            fn expect(t: &Tree, out: &mut Vec<(bool, usize, u16)>) {
                if let Tree::Nonterm { ridx, kids, .. } = t {
                    for k in kids {
                        expect(k, out);
                    }
                    for k in kids {
                        if let Tree::Term { tok, start, .. } = k {
                            out.push((true, *start, *tok));
                        }
                    }
                    out.push((false, 0, *ridx));
                }
            }
            let mut exp = vec![];
            expect(t, &mut exp);
            // reductions undone by a failed parse attempt never happen in the real driver; replayed
            // ones are made once. The callback history must be exactly the final tree's.
            if exp != map.events {
                let at = exp.iter().zip(&map.events).position(|(a, b)| a != b).unwrap_or(exp.len().min(map.events.len()));
                j.viol("C08", "C08-a-map-callback-order", format!("parse_map made {} callbacks, the returned tree implies {}; first difference at callback {at}: made {:?}, expected {:?}", map.events.len(), exp.len(), map.events.get(at), exp.get(at)));
            }
        }
        // every fourth scenario: the generic tree through the two public routes
        if sc.hash_seed % 4 == 0 && mstats.elapsed_ns < BUDGET_NS {
            match real_generictree_both_ways(b, &lexer, &prep.costs, sc.hash_seed, &sc.clock) {
                Ok(None) => j.rep.probes.hit("generic_tree_built_both_ways"),
                Ok(Some(d)) => j.viol("C08", "C08-e-actions-vs-generic-tree", d),
                Err(m) => classify_panic(&mut j, &prep, sc, &m, "parse_generictree / parse_actions(action_generictree)"),
            }
        }
    }

    let may_timeout = mstats.elapsed_ns >= BUDGET_NS;
    if may_timeout {
        j.rep.probes.hit("runs_where_a_deadline_may_have_passed");
    }
    if mstats.jumps_fired > 0 {
        j.rep.probes.add("clock_jumps_fired", mstats.jumps_fired);
    }
    let errors = &map.errors;
    if !errors.is_empty() {
        j.rep.exercised = [true, true, true, true];
        j.rep.probes.hit("scenarios_with_parse_error");
        if errors.iter().any(|e| prep.toks.len() > 250 && (e.lexeme.start as u64) < 40) {
            j.rep.probes.hit("errors_followed_by_more_input_than_the_ranking_window");
        }
        if errors.len() > 1 {
            j.rep.probes.hit("multi_error_inputs");
        }
    } else {
        j.rep.exercised[3] = n > 0;
        j.rep.exercised[2] = n > 0;
    }

    // %avoid_insert as the grammar *text* declares it (not as the grammar object reports it)
    let avoid_set: BTreeSet<u16> = sc
        .grammar
        .lines()
        .filter_map(|l| l.trim().strip_prefix("%avoid_insert"))
        .flat_map(|rest| rest.split_whitespace())
        .filter_map(|n| grm.token_idx(n.trim_matches('\'').trim_matches('"')))
        .map(|t| t.0)
        .collect();
    for t in grm.iter_tidxs() {
        if grm.avoid_insert(t) != avoid_set.contains(&t.0) {
            j.viol("C06", "C06-g-avoid-insert-set", format!("token {} ({:?}): avoid_insert() is {} but the grammar {} it in %avoid_insert", t.0, grm.token_name(t), grm.avoid_insert(t), if avoid_set.contains(&t.0) { "lists" } else { "does not list" }));
        }
    }

    // ---- walk the error list ----------------------------------------------------------------
    let lex_index = |l: &Lx| -> Option<usize> {
        if l.faulty && l.len == 0 && l.tok_id == ctx.eof {
            let end = lexer.lexemes.last().map(|x| x.start + x.len).unwrap_or(0);
            if l.start == end {
                return Some(n);
            }
            return None;
        }
        lexer.lexemes.iter().position(|x| x == l)
    };
    let start_of = |k: usize| -> usize {
        if k < n {
            lexer.lexemes[k].start
        } else {
            lexer.lexemes.last().map(|x| x.start + x.len).unwrap_or(0)
        }
    };
    let mut stack = start_stack;
    let mut k = 0usize;
    let mut edited: Vec<InTok> = vec![];
    let mut forest: Vec<Tree> = vec![];
    let in_lexemes: Vec<InTok> = lexer.lexemes.iter().map(|l| InTok { tok: l.tok_id, start: l.start, len: l.len, faulty: false }).collect();
    let mut prev_err: Option<usize> = None;
    let mut walk_ok = true; // false once the reference can no longer follow the real parser
    let mut prev_unstable = false;
    let all_have_repairs = errors.iter().all(|e| !e.repairs.is_empty());
    let mut walk_stopped_unstable = false;
    let mut unstable_applied: BTreeSet<usize> = BTreeSet::new();
    let mut first_inconclusive: Option<usize> = None;
    let push_real = |edited: &mut Vec<InTok>, i: usize| {
        let l = lexer.lexemes[i];
        edited.push(InTok { tok: l.tok_id, start: l.start, len: l.len, faulty: false });
    };
    for (ei, e) in errors.iter().enumerate() {
        let (k2, st2, acc) = ctx.parse_from_tree(&mut ss, stack, k, &in_lexemes, &mut forest);
        if ctx.looped.get() {
            return loop_scenario(rep, &prep, "reference LR loop after a repair");
        }
        for i in k..k2.min(n) {
            push_real(&mut edited, i);
        }
        if acc {
            if prev_unstable && !j.p1 {
                j.known("C05", "C05-b-later-errors", "rstar", format!("after a lookahead-unstable repair the reference accepts but error {ei} is reported"));
            } else {
                j.viol("C05", "C05-b-later-errors", format!("reference parse of the repaired input accepts, but error {ei} is reported at {:?}", e.lexeme));
            }
            walk_ok = false;
            break;
        }
        let Some(eidx) = lex_index(&e.lexeme) else {
            j.viol("C05", "C05-b-error-lexeme", format!("error {ei} lexeme {:?} is not an input lexeme", e.lexeme));
            walk_ok = false;
            break;
        };
        if eidx != k2 || ss.top(st2) != e.stidx {
            if prev_unstable && !j.p1 {
                j.known("C05", "C05-b-later-errors", "rstar", format!("after a lookahead-unstable repair: error {ei} reported at lexeme {eidx}/state {}, reference at {k2}/state {}", e.stidx, ss.top(st2)));
            } else {
                j.viol("C05", "C05-b-later-errors", format!("error {ei}: reported at lexeme {eidx} state {}, plain parse of the repaired input stops at lexeme {k2} state {}", e.stidx, ss.top(st2)));
            }
            walk_ok = false;
            break;
        }
        prev_err = Some(k2);
        if k2 == n {
            j.rep.probes.hit("errors_at_end_of_input");
        }

        // reference search at this configuration
        let so = if ei == 0 && first_search.is_some() {
            first_search.take().unwrap()
        } else {
            ref_search(&ctx, &mut ss, st2, k2, &opts.caps)
        };
        if ctx.looped.get() {
            return loop_scenario(rep, &prep, "reference search hit a reduction loop");
        }
        let seqs: Vec<Vec<Rp>> = e.repairs.iter().map(|s| s.iter().map(|x| x.plain()).collect()).collect();
        let outcome_class: u8;
        if std::env::var("VERIF_R_DEBUG").is_ok() {
            eprintln!("error {ei} at lexeme {k2} state {}: reported {:?}", ss.top(st2), seqs.iter().map(|s| fmt_seq(s)).collect::<Vec<_>>());
            match &so {
                SearchOutcome::Found { cost, cands, .. } => eprintln!("  reference: cost {cost}, candidates {:?}", cands.iter().map(|c| format!("{} reach {} stable {}", fmt_seq(&c.seq), c.reach, c.stable())).collect::<Vec<_>>()),
                SearchOutcome::NoRepairs => eprintln!("  reference: no repairs"),
                SearchOutcome::Inconclusive(w) => eprintln!("  reference: inconclusive ({w})"),
            }
        }

        // form of Delete / Shift lexemes
        for (si, s) in e.repairs.iter().enumerate() {
            let mut la = k2;
            for r in s {
                match r {
                    RRp::Ins(_) => {}
                    RRp::Del(l) | RRp::Sh(l) => {
                        if la >= n || lexer.lexemes[la] != *l {
                            j.viol("C05", "C05-c-repair-lexeme", format!("error {ei} sequence {si}: {:?} does not name input lexeme {la}", r));
                        }
                        la += 1;
                    }
                }
            }
        }

        if seqs.is_empty() {
            match &so {
                SearchOutcome::Found { cost, cands, .. } => {
                    if !may_timeout {
                        j.viol(
                            "C07",
                            "C07-f-empty-without-deadline",
                            format!("error {ei}: no repair sequences although no deadline can have passed (simulated elapsed {} ns) and a repair of cost {cost} exists, e.g. [{}]", mstats.elapsed_ns, fmt_seq(&strip(&cands[0].seq))),
                        );
                        // ... which is also C06's completeness clause at its extreme: every
                        // minimum-cost repair is missing from the reported set
                        j.viol("C06", "C06-d-incomplete", format!("error {ei} at lexeme {k2}: reported 0 sequences although no deadline can have passed; the reference has a repair of cost {cost}"));
                    } else {
                        j.rep.probes.hit("recoveries_cut_by_deadline");
                        let d = if sc.base_reads > 0 { 10 * sc.clock.jumps.first().map(|x| x.0).unwrap_or(mstats.clock_reads).min(sc.base_reads) / (sc.base_reads + 1) } else { 10 };
                        const DEC: [&str; 11] = ["deadline_decile_0", "deadline_decile_1", "deadline_decile_2", "deadline_decile_3", "deadline_decile_4", "deadline_decile_5", "deadline_decile_6", "deadline_decile_7", "deadline_decile_8", "deadline_decile_9", "deadline_in_fault_free_run"];
                        j.rep.probes.hit(DEC[d as usize]);
                    }
                    outcome_class = 1;
                }
                SearchOutcome::NoRepairs => {
                    j.rep.probes.hit("errors_without_any_repair_in_reference");
                    outcome_class = 2;
                }
                SearchOutcome::Inconclusive(_) => {
                    j.rep.probes.hit("c06_inconclusive");
                    outcome_class = 3;
                }
            }
            j.rep.states.push(fnv_add(gdig, format!("{}|{}|{}|{}|{}", ss.top(st2), k2, sc.policy_class, outcome_class, n - k2.min(n)).as_bytes()));
            break;
        }

        // C06 a,e,f,g,h on the reported list as it is
        let costs_real: Vec<u32> = seqs.iter().map(|s| ctx.cost_of(s, k2)).collect();
        if costs_real.iter().any(|c| *c != costs_real[0]) {
            j.viol("C06", "C06-a-unequal-cost", format!("error {ei}: reported sequences have costs {:?}", costs_real));
        }
        // the same sum over the lexemes the sequences themselves name
        let costs_named: Vec<u32> = e
            .repairs
            .iter()
            .map(|s| {
                s.iter()
                    .map(|r| match r {
                        RRp::Ins(t) => prep.costs[*t as usize] as u32,
                        RRp::Del(l) => prep.costs.get(l.tok_id as usize).copied().unwrap_or(0) as u32,
                        RRp::Sh(_) => 0,
                    })
                    .sum()
            })
            .collect();
        if costs_named.iter().any(|c| *c != costs_named[0]) && !costs_real.iter().any(|c| *c != costs_real[0]) {
            j.viol("C06", "C06-a-unequal-cost", format!("error {ei}: by the lexemes they name, the reported sequences cost {:?}", costs_named));
        }
        for (si, s) in seqs.iter().enumerate() {
            if s.last() == Some(&Rp::Sh) {
                j.viol("C06", "C06-e-trailing-shift", format!("error {ei} sequence {si} [{}] ends in a shift", fmt_seq(s)));
            }
            if s.iter().any(|r| *r == Rp::Ins(ctx.eof)) {
                j.viol("C06", "C06-h-eof-insert", format!("error {ei} sequence {si} inserts the end-of-input token"));
            }
            if s.is_empty() {
                j.viol("C06", "C06-empty-sequence", format!("error {ei} sequence {si} is empty"));
            }
        }
        let set_real: BTreeSet<Vec<Rp>> = seqs.iter().cloned().collect();
        if set_real.len() != seqs.len() {
            j.viol("C06", "C06-f-duplicate", format!("error {ei}: {} sequences reported, {} distinct", seqs.len(), set_real.len()));
        }
        let avoid = |s: &Vec<Rp>| s.iter().any(|r| matches!(r, Rp::Ins(t) if avoid_set.contains(t)));
        let mut seen_avoid = false;
        let mut last_len = 0usize;
        let mut any_avoid = false;
        for (si, s) in seqs.iter().enumerate() {
            let a = avoid(s);
            any_avoid |= a;
            if a && !seen_avoid {
                seen_avoid = true;
                last_len = 0;
            } else if !a && seen_avoid {
                j.viol("C06", "C06-g-avoid-insert-order", format!("error {ei}: sequence {si} [{}] inserts no %avoid_insert token but follows one that does", fmt_seq(s)));
            }
            if s.len() < last_len {
                j.viol("C06", "C06-g-length-order", format!("error {ei}: sequence {si} [{}] is shorter than its predecessor in the same group", fmt_seq(s)));
            }
            last_len = s.len();
        }
        if any_avoid && seqs.iter().any(|s| !avoid(s)) {
            j.rep.probes.hit("recoveries_where_avoid_insert_orders");
        }
        if seqs.len() >= 2 {
            j.rep.probes.hit("recoveries_with_2plus_sequences");
        }

        // C05-a for every sequence, C06 b,c,d against the reference
        let mut unstable_seqs: BTreeSet<Vec<Rp>> = BTreeSet::new();
        let mut any_unstable_cand = false;
        if let SearchOutcome::Found { cands, .. } = &so {
            for c in cands {
                if !c.stable() {
                    any_unstable_cand = true;
                    unstable_seqs.insert(strip(&c.seq));
                }
            }
            if any_unstable_cand {
                // With the plain-replay reference every candidate's search-time configuration is its
                // replay configuration by construction; this would be a bug of the reference itself.
                j.viol("C06", "harness-reference-inconsistent", format!("error {ei}: a reference candidate does not replay to its own configuration"));
                if j.p1 {
                    j.rep.probes.hit("p1_with_unstable_candidate");
                    // Theory says this cannot happen on a single-action automaton; it does not by
                    // itself contradict a listed property, so it is only counted.
                } else {
                    j.rep.probes.hit("p2_recoveries_with_lookahead_unstable_candidate");
                }
            }
        }
        for (si, s) in seqs.iter().enumerate() {
            if !ctx.repairs_ok(&mut ss, st2, k2, s) {
                {
                    j.viol("C05", "C05-a-sequence-does-not-repair", format!("error {ei} at lexeme {k2}: reported sequence {si} [{}] does not let a plain LR parse continue over three lexemes or to acceptance", fmt_seq(s)));
                }
            }
        }
        match &so {
            SearchOutcome::Found { cost, cands, merged_nodes } => {
                if *merged_nodes > 0 {
                    j.rep.probes.hit("recoveries_with_merged_nodes");
                }
                let best = cands.iter().map(|c| c.reach).max().unwrap_or(0);
                if cands.iter().any(|c| c.reach != best) {
                    j.rep.probes.hit("recoveries_where_ranking_discards");
                }
                if costs_real[0] != *cost {
                    if !j.p1 && any_unstable_cand {
                        j.rep.probes.hit("p2_cost_mismatch_skipped");
                    } else if costs_real[0] > *cost {
                        j.viol("C06", "C06-b-not-minimal", format!("error {ei}: reported cost {} but a valid repair of cost {cost} exists, e.g. [{}]", costs_real[0], fmt_seq(&strip(&cands[0].seq))));
                    } else {
                        j.viol("C06", "C06-b-cost-below-reference", format!("error {ei}: reported cost {} is below the reference minimum {cost}", costs_real[0]));
                    }
                } else if any_unstable_cand && !j.p1 {
                    j.rep.probes.hit("p2_set_comparison_skipped_unstable");
                    let exp = expected_set(cands);
                    if exp != set_real {
                        j.known("C06", "C06-cd-set-differs", "rstar", format!("error {ei}: set differs where a lookahead-unstable candidate exists"));
                    }
                } else {
                    let exp = expected_set(cands);
                    j.rep.probes.hit("c06_sets_compared");
                    if exp != set_real {
                        let missing: Vec<String> = exp.difference(&set_real).take(4).map(|s| fmt_seq(s)).collect();
                        let extra: Vec<String> = set_real.difference(&exp).take(4).map(|s| fmt_seq(s)).collect();
                        let class = if extra.is_empty() { "C06-d-incomplete" } else { "C06-c-set-differs" };
                        j.viol(
                            "C06",
                            class,
                            format!("error {ei} at lexeme {k2}: reported {} sequences, reference has {} (cost {cost}); missing [{}] extra [{}]{}", set_real.len(), exp.len(), missing.join(" | "), extra.join(" | "), if may_timeout { " (a deadline may have passed: the list may be empty but never partial)" } else { "" }),
                        );
                    }
                }
                outcome_class = 4;
            }
            SearchOutcome::NoRepairs => {
                j.viol("C06", "C06-c-reference-has-none", format!("error {ei}: sequences reported but the reference search space is exhausted without success"));
                outcome_class = 5;
            }
            SearchOutcome::Inconclusive(_) => {
                j.rep.probes.hit("c06_inconclusive");
                first_inconclusive.get_or_insert(ei);
                outcome_class = 6;
            }
        }
        j.rep.states.push(fnv_add(gdig, format!("{}|{}|{}|{}|{}|{}", ss.top(st2), k2, sc.policy_class, outcome_class, seqs.len().min(9), n - k2.min(n)).as_bytes()));

        // apply the first sequence
        // Once a lookahead-unstable repair has been applied the parser is in a configuration the
        // search never understood: everything later in this parse is attributed to it.
        prev_unstable = prev_unstable || unstable_seqs.contains(&seqs[0]);
        if prev_unstable {
            unstable_applied.insert(ei);
        }
        stack = st2;
        k = k2;
        let mut applied_ok = true;
        for r in &seqs[0] {
            match r {
                Rp::Ins(t) => {
                    let it = InTok { tok: *t, start: start_of(k), len: 0, faulty: true };
                    let s = ctx.step_tree(&mut ss, stack, *t, Some(it), &mut forest);
                    stack = s.stack;
                    if !s.shifted {
                        applied_ok = false;
                        break;
                    }
                    edited.push(it);
                }
                Rp::Del => {
                    if k >= n {
                        applied_ok = false;
                        break;
                    }
                    k += 1;
                }
                Rp::Sh => {
                    if k >= n {
                        applied_ok = false;
                        break;
                    }
                    let s = ctx.step_tree(&mut ss, stack, ctx.la(k), Some(in_lexemes[k]), &mut forest);
                    stack = s.stack;
                    if !s.shifted {
                        applied_ok = false;
                        break;
                    }
                    push_real(&mut edited, k);
                    k += 1;
                }
            }
        }
        if !applied_ok {
            // already reported by C05-a above
            walk_ok = false;
            walk_stopped_unstable = prev_unstable;
            break;
        }
    }

    // ---- C07 b, c over the reported list itself ------------------------------------------------
    let idxs: Vec<Option<usize>> = errors.iter().map(|e| lex_index(&e.lexeme)).collect();
    for i in 0..errors.len() {
        if errors[i].repairs.is_empty() && i + 1 != errors.len() {
            j.viol("C07", "C07-c-empty-not-last", format!("error {i} of {} has no repair sequences but is not the last", errors.len()));
        }
        if i + 1 < errors.len() {
            if let (Some(a), Some(b)) = (idxs[i], idxs[i + 1]) {
                if b < a + 3 {
                    // known only if a lookahead-unstable repair was applied at this error, or the
                    // walk had to stop earlier because one did not replay
                    let tainted = unstable_applied.iter().next().map_or(false, |t| *t <= i);
                    if false {
                    } else if !j.p1 && (tainted || (walk_stopped_unstable && !walk_ok)) {
                        j.known("C07", "C07-b-progress", "rstar", format!("error {} at lexeme {b}, previous at lexeme {a} (a lookahead-unstable repair was applied)", i + 1));
                    } else {
                        j.viol("C07", "C07-b-progress", format!("error {} at lexeme {b}, previous error at lexeme {a}: less than three lexemes of progress", i + 1));
                    }
                }
            }
        }
    }
    if errors.len() > n / 3 + 1 {
        j.viol("C07", "C07-b-error-count", format!("{} errors reported for {n} lexemes", errors.len()));
    }

    // ---- after the last error ----------------------------------------------------------------
    let value = &map.value;
    if value.is_some() != all_have_repairs {
        j.viol("C07", "C07-d-value-iff-repaired", format!("value returned: {}, every error has a repair sequence: {}", value.is_some(), all_have_repairs));
    }
    let mut ref_tree: Option<Tree> = None;
    let mut ref_forest: Option<Vec<Tree>> = None;
    if walk_ok {
        if all_have_repairs {
            let (k2, _st2, acc) = ctx.parse_from_tree(&mut ss, stack, k, &in_lexemes, &mut forest);
            if ctx.looped.get() {
                return loop_scenario(rep, &prep, "reference LR loop after the last repair");
            }
            for i in k..k2.min(n) {
                push_real(&mut edited, i);
            }
            if !acc {
                if prev_unstable && !j.p1 {
                    j.known("C05", "C05-b-later-errors", "rstar", "after a lookahead-unstable repair the reference finds a further error".into());
                } else {
                    j.viol("C05", "C05-b-later-errors", format!("plain parse of the repaired input stops with an error at lexeme {k2} that was not reported ({} errors reported)", errors.len()));
                }
            } else if forest.len() == 1 {
                ref_tree = forest.pop();
                // On a single-action automaton, continuing from the error configuration and
                // parsing the repaired input from scratch must coincide.
                if j.p1 {
                    match parse_tree(grm, &b.st, &edited) {
                        TreeParse::Accept(t) if Some(&t) == ref_tree.as_ref() => {}
                        _ => j.viol("C05", "C05-b-from-scratch", "parsing the repaired input from scratch differs from continuing at the error configuration (single-action automaton)".into()),
                    }
                } else if !matches!(parse_tree(grm, &b.st, &edited), TreeParse::Accept(t) if Some(&t) == ref_tree.as_ref()) {
                    j.rep.probes.hit("p2_from_scratch_parse_differs");
                }
            } else {
                j.viol("C05", "C05-b-tree", format!("harness: accepted with {} subtrees on the stack", forest.len()));
            }
        } else {
            // stack content at the unrepaired error
            ref_forest = Some(forest.clone());
        }
    }
    if let (Some(v), Some(rt)) = (value, &ref_tree) {
        if !v.same_shape(rt) {
            j.viol("C05", "C05-b-tree", format!("returned tree {} differs from the tree of the repaired input {}", v.pp(), rt.pp()));
        }
        let mut leaves = vec![];
        v.leaves(&mut leaves);
        let want: Vec<(u16, usize, usize, bool)> = edited.iter().map(|e| (e.tok, e.start, e.len, e.faulty)).collect();
        if leaves != want {
            // classify: spelling vs. form of inserted leaves
            let toks_l: Vec<u16> = leaves.iter().map(|x| x.0).collect();
            let toks_w: Vec<u16> = want.iter().map(|x| x.0).collect();
            if toks_l != toks_w {
                j.viol("C05", "C05-b-leaves-spell", format!("leaves {:?} do not spell the repaired input {:?}", toks_l, toks_w));
            } else {
                j.viol("C05", "C05-c-leaf-form", format!("leaf lexemes {:?} differ from expected {:?} (inserted: zero-length, faulty, at the start of the next real lexeme)", leaves, want));
            }
        }
        if leaves.iter().any(|l| l.3) {
            j.rep.probes.hit("trees_with_inserted_leaves");
        }
        if errors.is_empty() {
            j.rep.probes.hit("accepted_unchanged");
        }
    }
    if errors.is_empty() && value.is_none() {
        // covered by C07-d above (all_have_repairs is vacuously true)
    }

    // ---- C08: action history ----------------------------------------------------------------
    check_c08(&mut j, grm, &act, value.as_ref(), ref_tree.as_ref(), ref_forest.as_ref(), walk_ok);

    // ---- C05-b, differentially: the repaired input parsed from scratch by the real parser -------
    // "The value ... [is] exactly [that] of parsing the input with the first sequence of each
    // error applied": same action calls, same spans, same arguments (an inserted lexeme is
    // `faulty` in the recovering parse and an ordinary zero-width lexeme in this one).
    if !errors.is_empty() && value.is_some() && walk_ok && ref_tree.is_some() && opts.act_runner.is_none() {
        let lx2 = StubLexer::from_lexemes(edited.iter().map(|e| Lx { start: e.start, len: e.len, faulty: false, tok_id: e.tok }).collect());
        let (po, _) = real_parse_actions(b, &lx2, &prep.costs, sc.hash_seed, &ClockPolicy { tick_ns: 1, jumps: vec![] }, RecoveryKind::None);
        match po {
            SimOutcome::Panic(msg) if msg.starts_with("HARNESS-LOOP-GUARD") && !j.p1 => {
                j.known("C07", "C07-a-reduction-loop", "hidden-left-recursion", format!("plain parse of the repaired input: the LR driver reduced more than {ACTION_CALL_CAP} times"));
            }
            SimOutcome::Panic(msg) => j.viol("C05", "C05-b-plain-parse-of-repaired-input", format!("parsing the repaired input panicked: {msg}")),
            SimOutcome::Ok(pr) => {
                j.rep.probes.hit("repaired_inputs_parsed_from_scratch");
                if !pr.errors.is_empty() || pr.value.is_none() {
                    if j.p1 {
                        j.viol("C05", "C05-b-plain-parse-of-repaired-input", format!("the repaired input does not parse without error: {:?}", pr.errors.first().map(|e| e.lexeme)));
                    } else {
                        // continuing at the error configuration and starting from scratch can differ
                        // on an automaton with a conflict-resolved cell (reductions made under the
                        // erroneous lookahead precede the repair): counted, not judged
                        j.rep.probes.hit("p2_from_scratch_parse_differs");
                    }
                } else {
                    let same = pr.recs.len() == act.recs.len()
                        && pr.recs.iter().zip(&act.recs).all(|(a, b2)| {
                            a.pidx == b2.pidx
                                && a.span == b2.span
                                && a.args.len() == b2.args.len()
                                && a.args.iter().zip(&b2.args).all(|(x, y)| match (x, y) {
                                    (Arg::Val(p), Arg::Val(q)) => p == q,
                                    (Arg::Lex(p), Arg::Lex(q)) => p.start == q.start && p.len == q.len && p.tok_id == q.tok_id,
                                    _ => false,
                                })
                        });
                    // same reductions in the same order? (on an automaton with a conflict-resolved
                    // cell the two parses may legitimately differ in *which* reductions happen)
                    let same_parse = pr.recs.len() == act.recs.len() && pr.recs.iter().zip(&act.recs).all(|(a, b2)| a.pidx == b2.pidx);
                    if !same && !same_parse && !j.p1 {
                        j.rep.probes.hit("p2_from_scratch_parse_differs");
                    }
                    if !same && (j.p1 || same_parse) {
                        let first = pr.recs.iter().zip(&act.recs).position(|(a, b2)| a.pidx != b2.pidx || a.span != b2.span).unwrap_or(0);
                        j.viol(
                            "C05",
                            "C05-b-value-differs-from-plain-parse",
                            format!("action call {first}: recovering parse {:?}, plain parse of the repaired input {:?} ({} vs {} calls)", act.recs.get(first).map(|r| (r.pidx, r.span)), pr.recs.get(first).map(|r| (r.pidx, r.span)), act.recs.len(), pr.recs.len()),
                        );
                    }
                }
            }
        }
    }

    // ---- the same input without error recovery (C07 c/d/e, C08 on the prefix) -----------------
    if !errors.is_empty() && sc.clock.jumps.is_empty() && sc.hash_seed % 3 == 0 && opts.act_runner.is_none() {
        let (no, _) = real_parse_actions(b, &lexer, &prep.costs, sc.hash_seed, &sc.clock, RecoveryKind::None);
        match no {
            SimOutcome::Panic(msg) => j.viol("C07", "C07-a-panic", format!("parse_actions with RecoveryKind::None panicked: {msg}")),
            SimOutcome::Ok(nr) => {
                j.rep.probes.hit("runs_without_recovery");
                if nr.value.is_some() {
                    j.viol("C07", "C07-d-value-iff-repaired", "RecoveryKind::None: a value was returned for an input with a parse error".into());
                }
                if nr.errors.len() != 1 || !nr.errors[0].repairs.is_empty() {
                    j.viol("C07", "C07-c-empty-not-last", format!("RecoveryKind::None: expected exactly one error without repairs, got {:?}", nr.errors.iter().map(|e| e.repairs.len()).collect::<Vec<_>>()));
                } else if nr.errors[0].lexeme != errors[0].lexeme || nr.errors[0].stidx != errors[0].stidx {
                    j.viol("C07", "C07-none-vs-cpctplus-first-error", format!("first error without recovery {:?}/state {} differs from the first error with recovery {:?}/state {}", nr.errors[0].lexeme, nr.errors[0].stidx, errors[0].lexeme, errors[0].stidx));
                }
                // actions ran exactly for the reductions of the prefix
                let mut f: Vec<Tree> = vec![];
                let mut ss2 = Stacks::new();
                let st0 = ss2.from_slice(&[b.st.start_state().0]);
                let c2 = Ctx::new(grm, &b.st, &prep.toks, &prep.costs);
                let (_, _, acc) = c2.parse_from_tree(&mut ss2, st0, 0, &in_lexemes, &mut f);
                if !acc && !c2.looped.get() {
                    check_c08(&mut j, grm, &nr, None, None, Some(&f), true);
                }
            }
        }
    }

    rep
}

fn loop_scenario(mut rep: RunReport, prep: &Prepared, what: &str) -> RunReport {
    rep.probes.hit("reference_reduction_loop_scenarios");
    rep.exercised[2] = true;
    if prep.p1 {
        rep.findings.push(Finding {
            property: "C07".into(),
            class: "C07-a-reduction-loop".into(),
            detail: format!("{what} on a single-action automaton of an acyclic grammar (real parser not run)"),
            known: None,
        });
    } else {
        rep.findings.push(Finding {
            property: "C07".into(),
            class: "C07-a-reduction-loop".into(),
            detail: format!("{what}: conflict resolution drives the LR driver into an endless chain of reductions (real parser not run in-process)"),
            known: Some("hidden-left-recursion".into()),
        });
    }
    rep
}

/// A lexer that reports an error (in place of lexeme k, or after the last lexeme): whatever the
/// front end does with the lexemes before and after it, the input was *not* accepted unchanged,
/// and a lexing error carries no repair sequence. C07's last sentence then demands: never a value
/// with an empty error list; never a value next to a reported lexing error; never "no value"
/// with nothing reported.
fn execute_lexerr(mut rep: RunReport, sc: &RScenario, prep: &Prepared, lexer: &StubLexer) -> RunReport {
    let b = &prep.built;
    let (ao, astats) = real_parse_actions(b, lexer, &prep.costs, sc.hash_seed, &sc.clock, RecoveryKind::CPCTPlus);
    let (mo, mstats) = real_parse_map(b, lexer, &prep.costs, sc.hash_seed, &sc.clock);
    let (no, _) = real_parse_actions(b, lexer, &prep.costs, sc.hash_seed, &sc.clock, RecoveryKind::None);
    rep.clock_reads = mstats.clock_reads;
    rep.elapsed_ns = mstats.elapsed_ns;
    rep.exercised[2] = true;
    rep.probes.hit("lexing_faults_injected");
    if sc.lex_error.map_or(false, |l| l.1) {
        rep.probes.hit("lexing_faults_with_lexemes_after_the_error");
    }
    let mut lh = fnv(&mstats.clock_reads.to_le_bytes());
    lh = fnv_add(lh, &astats.clock_reads.to_le_bytes());
    let mut j = Judge { p1: prep.p1, rep: &mut rep };
    let mut judge = |j: &mut Judge, which: &str, r: Result<(bool, usize, usize), String>| match r {
        Err(msg) => classify_panic(j, prep, sc, &msg, which),
        Ok((has_value, n_parse, n_lex)) => {
            if has_value && n_parse + n_lex == 0 {
                j.viol("C07", "C07-d-lexing-error-value-with-empty-error-list", format!("{which}: the lexer reported an error at lexeme {:?} of {}, yet a value came back with an empty error list", sc.lex_error, sc.tokens.len()));
            } else if has_value && n_lex > 0 {
                j.viol("C07", "C07-d-lexing-error-value-iff-repaired", format!("{which}: a value came back next to {n_lex} lexing error(s), which carry no repair sequence"));
            } else if !has_value && n_parse + n_lex == 0 {
                j.viol("C07", "C07-d-value-iff-repaired", format!("{which}: neither a value nor an error (lexing fault at {:?})", sc.lex_error));
            }
            if n_lex > 0 {
                j.rep.probes.hit("lexing_errors_reported");
            }
        }
    };
    let conv_m = |o: SimOutcome<MapRun>| match o {
        SimOutcome::Ok(m) => Ok((m.value.is_some(), m.errors.len(), m.lex_errors)),
        SimOutcome::Panic(m) => Err(m),
    };
    let conv_a = |o: SimOutcome<ActRun>| match o {
        SimOutcome::Ok(m) => Ok((m.value.is_some(), m.errors.len(), m.lex_errors)),
        SimOutcome::Panic(m) => Err(m),
    };
    let (rm, ra, rn) = (conv_m(mo), conv_a(ao), conv_a(no));
    lh = fnv_add(lh, format!("{rm:?}{ra:?}{rn:?}").as_bytes());
    judge(&mut j, "parse_map", rm);
    judge(&mut j, "parse_actions", ra);
    judge(&mut j, "parse_actions without recovery", rn);
    j.rep.log_hash = lh;
    rep
}

fn classify_panic(j: &mut Judge, prep: &Prepared, sc: &RScenario, msg: &str, which: &str) {
    if msg.starts_with("HARNESS-LOOP-GUARD") {
        if !prep.p1 {
            j.known("C07", "C07-a-reduction-loop", "hidden-left-recursion", format!("{which}: the LR driver reduced more than {ACTION_CALL_CAP} times on {} lexemes", sc.tokens.len()));
        } else {
            j.viol("C07", "C07-a-reduction-loop", format!("{which}: the LR driver reduced more than {ACTION_CALL_CAP} times on {} lexemes (single-action automaton)", sc.tokens.len()));
        }
    } else {
        j.viol("C07", "C07-a-panic", format!("{which} panicked instead of returning: {msg}"));
    }
}

/// The tree a record (action call) and the calls it consumed build.
pub fn build_tree(recs: &[Rec], i: usize) -> Tree {
    let r = &recs[i];
    Tree::Nonterm {
        ridx: r.ridx,
        pidx: Some(r.pidx),
        kids: r
            .args
            .iter()
            .map(|a| match a {
                Arg::Lex(l) => Tree::Term { tok: l.tok_id, start: l.start, len: l.len, faulty: l.faulty },
                Arg::Val(v) => {
                    if *v < i {
                        build_tree(recs, *v)
                    } else {
                        Tree::Nonterm { ridx: u16::MAX, pidx: None, kids: vec![] }
                    }
                }
            })
            .collect(),
    }
}

fn check_c08(j: &mut Judge, grm: &cfgrammar::yacc::YaccGrammar<u16>, act: &ActRun, map_value: Option<&Tree>, ref_tree: Option<&Tree>, ref_forest: Option<&Vec<Tree>>, walk_ok: bool) {
    let recs = &act.recs;
    for (class, detail) in &act.notes {
        j.viol("C08", class, detail.clone());
    }
    // c: per-record checks
    let mut consumed = vec![0u32; recs.len()];
    for (i, r) in recs.iter().enumerate() {
        let pidx = cfgrammar::PIdx(r.pidx);
        if grm.prod_to_rule(pidx).0 != r.ridx {
            j.viol("C08", "C08-c-rule", format!("action call {i}: production {} belongs to rule {} but rule {} was passed", r.pidx, grm.prod_to_rule(pidx).0, r.ridx));
        }
        if r.param != PARAM_MAGIC {
            j.viol("C08", "C08-c-param", format!("action call {i}: parse parameter {:#x} instead of {:#x}", r.param, PARAM_MAGIC));
        }
        let prod = grm.prod(pidx);
        if prod.len() != r.args.len() {
            j.viol("C08", "C08-c-arg-count", format!("action call {i} (production {}): {} arguments for {} symbols", r.pidx, r.args.len(), prod.len()));
            continue;
        }
        for (ai, (sym, a)) in prod.iter().zip(&r.args).enumerate() {
            match (sym, a) {
                (Symbol::Token(t), Arg::Lex(l)) => {
                    if l.tok_id != t.0 {
                        j.viol("C08", "C08-c-arg-kind", format!("action call {i} argument {ai}: lexeme of token {} where token {} is expected", l.tok_id, t.0));
                    }
                }
                (Symbol::Rule(ru), Arg::Val(v)) => {
                    if *v >= i {
                        j.viol("C08", "C08-b-order", format!("action call {i} argument {ai}: child value {v} was not produced earlier"));
                    } else {
                        consumed[*v] += 1;
                        if recs[*v].ridx != ru.0 {
                            j.viol("C08", "C08-c-arg-kind", format!("action call {i} argument {ai}: value of rule {} where rule {} is expected", recs[*v].ridx, ru.0));
                        }
                    }
                }
                _ => j.viol("C08", "C08-c-arg-kind", format!("action call {i} argument {ai}: lexeme/value kind does not match the production's symbol")),
            }
        }
    }
    for (i, c) in consumed.iter().enumerate() {
        if *c > 1 {
            j.viol("C08", "C08-a-value-reused", format!("the value returned by action call {i} was passed to {c} later calls"));
        }
    }
    // Build the forest of records.
    // b: post-order numbering
    fn postorder(recs: &[Rec], i: usize, out: &mut Vec<usize>) {
        for a in &recs[i].args {
            if let Arg::Val(v) = a {
                if *v < i {
                    postorder(recs, *v, out);
                }
            }
        }
        out.push(i);
    }
    let roots: Vec<usize> = (0..recs.len()).filter(|i| consumed[*i] == 0).collect();
    let mut po = vec![];
    for r in &roots {
        postorder(recs, *r, &mut po);
    }
    if po != (0..recs.len()).collect::<Vec<_>>() {
        j.viol("C08", "C08-b-order", format!("action calls are not in left-to-right bottom-up order of the tree they build: post-order {:?}", &po[..po.len().min(40)]));
    }
    match act.value {
        Some(root) => {
            if roots != vec![root] {
                j.viol("C08", "C08-a-calls-vs-tree", format!("value is the result of call {root} but the calls not consumed by another call are {:?} ({} calls in total)", &roots[..roots.len().min(20)], recs.len()));
            }
            if root < recs.len() {
                let t = build_tree(recs, root);
                if let Some(mv) = map_value {
                    if !t.same_shape(mv) {
                        j.viol("C08", "C08-e-actions-vs-generic-tree", format!("tree built through actions {} differs from parse_map's tree {}", t.pp(), mv.pp()));
                    }
                } else {
                    j.viol("C08", "C08-e-actions-vs-generic-tree", "parse_actions returned a value but parse_map did not".into());
                }
                if let Some(rt) = ref_tree {
                    if &t != rt {
                        // same shape but different production, or different tree
                        if t.same_shape(rt) {
                            j.viol("C08", "C08-c-production", format!("actions tree has the reference's shape but was built by different productions"));
                        } else if walk_ok {
                            j.viol("C08", "C08-a-calls-vs-tree", format!("tree built through actions {} differs from the reference tree {}", t.pp(), rt.pp()));
                        }
                    }
                    if t.count_nonterms() != recs.len() {
                        j.viol("C08", "C08-a-calls-vs-tree", format!("{} action calls for a tree with {} reductions", recs.len(), t.count_nonterms()));
                    }
                }
                check_spans(j, recs, &[t]);
            }
        }
        None => {
            if map_value.is_some() {
                j.viol("C08", "C08-e-actions-vs-generic-tree", "parse_map returned a value but parse_actions did not".into());
            }
            let forest: Vec<Tree> = roots.iter().map(|r| build_tree(recs, *r)).collect();
            if let Some(rf) = ref_forest {
                let rf_nt: Vec<&Tree> = rf.iter().filter(|t| matches!(t, Tree::Nonterm { .. })).collect();
                let same = rf_nt.len() == forest.len() && rf_nt.iter().zip(&forest).all(|(a, b)| *a == b);
                if !same {
                    j.viol(
                        "C08",
                        "C08-a-calls-vs-prefix",
                        format!("no value returned: action calls form [{}] but the reference prefix parse reduces [{}]", forest.iter().map(|t| t.pp()).collect::<Vec<_>>().join(" "), rf_nt.iter().map(|t| t.pp()).collect::<Vec<_>>().join(" ")),
                    );
                }
                // spans over the full reference forest (terms included, so the span stack is right)
                let full: Vec<Tree> = rf.clone();
                if same {
                    check_spans(j, recs, &full);
                }
            }
        }
    }
    if !recs.is_empty() {
        j.rep.probes.add("action_calls", recs.len() as u64);
    }
}

/// C08-d. `forest` is the final parse stack content, left to right; nonterminal nodes are
/// matched to action calls in post-order.
fn check_spans(j: &mut Judge, recs: &[Rec], forest: &[Tree]) {
    // expected per the property, and what the implementation's formula yields (for the
    // known-finding signature), by replaying the span stack.
    struct W<'a> {
        recs: &'a [Rec],
        next: usize,
        stack: Vec<(usize, usize)>,
        out: Vec<(usize, Option<(usize, usize)>, (usize, usize), bool)>, // (rec, expected (None = any zero-length), code formula, leading-empty signature)
    }
    // returns (first lexeme start, last lexeme end) of derived lexemes, and whether the subtree
    // starts with an empty-deriving part
    fn walk(w: &mut W, t: &Tree) -> (Option<(usize, usize)>, bool) {
        match t {
            Tree::Term { start, len, .. } => {
                w.stack.push((*start, *start + *len));
                (Some((*start, *start + *len)), false)
            }
            Tree::Nonterm { kids, .. } => {
                let mut ext: Option<(usize, usize)> = None;
                let mut leading_empty = false;
                for k in kids {
                    let (e, lead) = walk(w, k);
                    if ext.is_none() && (e.is_none() || lead) {
                        // an empty-deriving part precedes the first derived lexeme
                        leading_empty = true;
                    }
                    if let Some((s, en)) = e {
                        ext = Some(match ext {
                            None => (s, en),
                            Some((s0, _)) => (s0, en),
                        });
                    }
                }
                let n = kids.len();
                let len = w.stack.len();
                let code = if len == 0 {
                    (0, 0)
                } else if n > 0 {
                    (w.stack[len - n].0, w.stack[len - 1].1)
                } else {
                    w.stack[len - 1]
                };
                w.stack.truncate(len - n);
                w.stack.push(code);
                let sig = ext.is_none() || leading_empty;
                w.out.push((w.next, ext, code, sig));
                w.next += 1;
                (ext, sig)
            }
        }
    }
    let mut w = W { recs, next: 0, stack: vec![], out: vec![] };
    for t in forest {
        walk(&mut w, t);
    }
    let mut empties = 0;
    for (ri, exp, code, sig) in w.out {
        if ri >= recs.len() {
            break;
        }
        let got = recs[ri].span;
        let ok = match exp {
            Some(e) => got == e,
            None => got.0 == got.1,
        };
        if exp.is_none() {
            empties += 1;
        }
        if !ok {
            if sig && got == code {
                j.known(
                    "C08",
                    "C08-d-span",
                    "empty-production-span",
                    format!("action call {ri}: span {:?}, expected {}", got, match exp {
                        Some(e) => format!("{:?}", e),
                        None => "zero-length".into(),
                    }),
                );
            } else {
                j.viol(
                    "C08",
                    "C08-d-span",
                    format!("action call {ri} (production {}): span {:?}, expected {}", recs[ri].pidx, got, match exp {
                        Some(e) => format!("{:?}", e),
                        None => "a zero-length span".into(),
                    }),
                );
            }
        }
    }
    if empties > 0 {
        j.rep.probes.hit("trees_with_empty_productions");
    }
}

// ---------------------------------------------------------------------------------------------
// Generation
// ---------------------------------------------------------------------------------------------

pub struct GenParams {
    pub max_tokens: usize,
}

/// Base (fault-free) scenario for stream `r`. Pure given the grammar front end.
/// Inputs whose every repair costs more than a `u16` can hold: a finite language (so that the
/// search space stays small), a junk tail of 258-300 lexemes at cost 255 that can only be deleted,
/// and cheap alternatives of different cost in front of it.
fn gen_overflow(r: &mut Rng) -> RScenario {
    let grammar = "%start R0\n%%\nR0: R1 't0';\nR1: 't1' | 't2';\nR2: 't3';\n".to_string();
    let n = 258 + r.below(43) as usize;
    let mut tokens = vec![];
    if r.chance(50) {
        tokens.push("t0".to_string());
    }
    tokens.extend((0..n).map(|_| "t3".to_string()));
    let mut costs = BTreeMap::new();
    costs.insert("t3".to_string(), 255u8);
    costs.insert("t2".to_string(), 2 + r.below(3) as u8);
    if r.chance(50) {
        costs.insert("t0".to_string(), 1 + r.below(200) as u8);
    }
    RScenario {
        origin: "cost-overflow".into(),
        grammar,
        gaps: vec![0; tokens.len()],
        tokens,
        costs,
        hash_seed: r.next(),
        clock: ClockPolicy { tick_ns: 100_000, jumps: vec![] },
        policy_class: "tick".into(),
        base_reads: 0,
        zero_width: vec![],
        lex_error: None,
    }
}

/// One valid lexeme (or none) followed by thousands of lexemes that can only be deleted, with a
/// clock fast enough for the search to get through all of them inside its budget: whatever the
/// recoverer does per repair *recursively* meets the stack here.
fn gen_long_junk(r: &mut Rng) -> RScenario {
    let grammar = "%start R0\n%%\nR0: 't0' | 't0' 't2';\nR1: 't1';\n".to_string();
    let n = *r.pick(&[3_000usize, 12_000, 45_000]);
    let mut tokens = vec!["t0".to_string()];
    tokens.extend((0..n).map(|_| "t1".to_string()));
    RScenario {
        origin: "long-junk".into(),
        grammar,
        gaps: vec![],
        tokens,
        costs: BTreeMap::new(),
        hash_seed: r.next(),
        clock: ClockPolicy { tick_ns: (BUDGET_NS / (4 * n as u64)).max(1), jumps: vec![] },
        policy_class: "tick".into(),
        base_reads: 0,
        zero_width: vec![],
        lex_error: None,
    }
}

/// Repair sequences around 250 elements long (the ranking window's size): 240-420 stray lexemes
/// between two good ones, which can only be deleted.
fn gen_mid_junk(r: &mut Rng) -> RScenario {
    let grammar = "%start R0\n%%\nR0: 't0' 't2';\nR1: 't1';\n".to_string();
    let n = 240 + r.below(181) as usize;
    let mut tokens = vec!["t0".to_string()];
    tokens.extend((0..n).map(|_| "t1".to_string()));
    tokens.push("t2".into());
    RScenario {
        origin: "mid-junk".into(),
        grammar,
        gaps: vec![],
        tokens,
        costs: BTreeMap::new(),
        hash_seed: r.next(),
        clock: ClockPolicy { tick_ns: (BUDGET_NS / (8 * n as u64)).max(1), jumps: vec![] },
        policy_class: "tick".into(),
        base_reads: 0,
        zero_width: vec![],
        lex_error: None,
    }
}

/// Many interchangeable repairs converging on one configuration: 40-140 keyword tokens that are
/// alternatives of one rule, then a token that must follow; the input lacks the keyword (and
/// sometimes what follows it), so every keyword is a minimum-cost insertion and all of them are
/// merged into one search node before the next repair.
fn gen_wide_alternatives(r: &mut Rng) -> RScenario {
    let n = 40 + r.below(101) as usize;
    let mut grammar = String::from("%start R0\n%%\nR0: R1 't0' | R1 't0' 't1' R0;\nR1:");
    for i in 0..n {
        grammar.push_str(&format!("{} 't{}'", if i == 0 { "" } else { " |" }, i + 2));
    }
    grammar.push_str(";\n");
    let tokens: Vec<String> = match r.below(3) {
        0 => vec![],
        1 => vec!["t0".into()],
        _ => vec!["t0".into(), "t1".into(), "t0".into()],
    };
    RScenario {
        origin: "wide-alternatives".into(),
        grammar,
        gaps: vec![],
        tokens,
        costs: BTreeMap::new(),
        hash_seed: r.next(),
        clock: ClockPolicy { tick_ns: 20_000, jumps: vec![] },
        policy_class: "tick".into(),
        base_reads: 0,
        zero_width: vec![],
        lex_error: None,
    }
}

/// Parse stacks deeper than the ranking window when the error is met: 260-700 openers, then the
/// innermost item, then none / some / all-but-a-few of the closers, so that the cheapest repair
/// has to unwind (or complete) hundreds of stack entries.
fn gen_deep_nest(r: &mut Rng) -> RScenario {
    let (grammar, open, mid, close): (&str, &str, &str, Option<&str>) = *r.pick(&[
        ("%start R0\n%%\nR0: 't0' R0 't1' | 't2';\n", "t0", "t2", Some("t1")),
        ("%start R0\n%%\nR0: 't0' R0 | 't1';\n", "t0", "t1", None),
        ("%start R0\n%%\nR0: R1 't3';\nR1: 't0' R1 't1' | 't2' | ;\n", "t0", "t2", Some("t1")),
    ]);
    let n = 260 + r.below(441) as usize;
    let mut tokens: Vec<String> = (0..n).map(|_| open.to_string()).collect();
    match r.below(3) {
        0 => {}                              // the innermost item is missing too
        1 => tokens.push(mid.into()),
        _ => {
            tokens.push(mid.into());
            if let Some(c) = close {
                let m = if r.chance(50) { n - 1 - r.below(3) as usize } else { r.below(n as u64) as usize };
                tokens.extend((0..m).map(|_| c.to_string()));
            }
        }
    }
    if grammar.contains("'t3'") && r.chance(70) {
        tokens.push("t3".into());
    }
    RScenario {
        origin: "deep-nest".into(),
        grammar: grammar.to_string(),
        gaps: vec![],
        tokens,
        costs: BTreeMap::new(),
        hash_seed: r.next(),
        clock: ClockPolicy { tick_ns: (BUDGET_NS / (16 * n as u64)).max(1), jumps: vec![] },
        policy_class: "tick".into(),
        base_reads: 0,
        zero_width: vec![],
        lex_error: None,
    }
}

/// Inputs on which the ranking window (TRY_PARSE_AT_MOST = 250 lexemes beyond the error) binds:
/// the grammar is wrapped into a list (`RL: RL R0 't99' | R0 't99';`), the input is 300-700
/// lexemes of sentences of the inner grammar, and the edits that make it erroneous all lie in its
/// first dozen lexemes - so every candidate repair is followed by more error-free input than the
/// window holds.
fn gen_long_tail(r: &mut Rng, gp: &GenParams) -> Option<RScenario> {
    let inner = if r.chance(30) { r.pick(gram::CORPUS).1.to_string() } else { gram::gen_template(r) };
    if !inner.starts_with("%start R0\n") {
        return None;
    }
    let grammar = format!("%start RL\n{}RL: RL R0 't99' | R0 't99';\n", &inner["%start R0\n".len()..]);
    let unit = r.chance(70);
    let mut sc = gen_with_grammar(r, "long-tail".into(), grammar.clone(), gp, unit)?;
    let hash_seed = sc.hash_seed;
    let built = match sim_process(hash_seed, None, || gram::build(&inner)).0 {
        SimOutcome::Ok(Ok(b)) => b,
        _ => return None,
    };
    let grm = &built.grm;
    let ml = gram::min_lens(grm);
    let target = 300 + r.below(400) as usize;
    let mut toks: Vec<String> = vec![];
    let mut tries = 0;
    while toks.len() < target {
        tries += 1;
        if tries > 2000 {
            return None;
        }
        let Some(t) = gram::derive(grm, &ml, r, 12) else { continue };
        toks.extend(t.iter().map(|x| grm.token_name(TIdx(*x)).unwrap().to_string()));
        toks.push("t99".into());
    }
    let names: Vec<String> = grm.iter_tidxs().filter(|t| *t != grm.eof_token_idx()).map(|t| grm.token_name(t).unwrap().to_string()).chain(["t99".to_string()]).collect();
    for _ in 0..1 + r.below(3) {
        let i = r.below(12.min(toks.len() as u64)) as usize;
        match r.below(3) {
            0 => {
                toks.remove(i);
            }
            1 => toks.insert(i, r.pick(&names).clone()),
            _ => toks[i] = r.pick(&names).clone(),
        }
    }
    sc.gaps = toks.iter().map(|_| if r.chance(70) { 0 } else { 1 }).collect();
    sc.zero_width = vec![];
    sc.tokens = toks;
    Some(sc)
}

pub fn gen_base(r: &mut Rng, gp: &GenParams) -> Option<RScenario> {
    let which = r.below(100);
    if which == 99 && r.chance(50) {
        return Some(gen_overflow(r));
    }
    if which == 98 && r.chance(3) {
        return Some(gen_long_junk(r));
    }
    if which == 97 && r.chance(40) {
        return gen_long_tail(r, gp);
    }
    if which == 96 && r.chance(25) {
        return Some(gen_mid_junk(r));
    }
    if which == 95 && r.chance(25) {
        return Some(gen_deep_nest(r));
    }
    if which == 94 && r.chance(25) {
        return Some(gen_wide_alternatives(r));
    }
    let (origin, grammar) = if which < 12 {
        let (n, g) = *r.pick(gram::CORPUS);
        (format!("corpus:{n}"), g.to_string())
    } else if which < 60 {
        ("template".to_string(), gram::gen_template(r))
    } else {
        ("random".to_string(), gram::gen_random(r))
    };
    gen_with_grammar(r, origin, grammar, gp, false)
}

/// Input, costs, hash seed and clock for a given grammar.
pub fn gen_with_grammar(r: &mut Rng, origin: String, grammar: String, gp: &GenParams, unit_costs: bool) -> Option<RScenario> {
    let hash_seed = r.next();
    let built = match sim_process(hash_seed, None, || gram::build(&grammar)).0 {
        SimOutcome::Ok(Ok(b)) => b,
        _ => return None,
    };
    if gram::has_cycle(&built.grm) {
        return None;
    }
    let grm = &built.grm;
    let nt = gram::ntokens(grm);
    let eof = grm.eof_token_idx().0;
    let real_toks: Vec<u16> = (0..nt as u16).filter(|t| *t != eof).collect();
    if real_toks.is_empty() {
        return None;
    }
    let ml = gram::min_lens(grm);
    let max_len = gp.max_tokens;
    // input
    let mut toks: Vec<u16> = if r.chance(70) {
        match gram::derive(grm, &ml, r, max_len) {
            Some(mut t) => {
                t.truncate(max_len);
                let edits = r.below(4);
                for _ in 0..edits {
                    match r.below(4) {
                        0 if !t.is_empty() => {
                            let i = r.below(t.len() as u64) as usize;
                            t.remove(i);
                        }
                        1 => {
                            let i = r.below(t.len() as u64 + 1) as usize;
                            t.insert(i, *r.pick(&real_toks));
                        }
                        2 if !t.is_empty() => {
                            let i = r.below(t.len() as u64) as usize;
                            t[i] = *r.pick(&real_toks);
                        }
                        3 if t.len() >= 2 => {
                            let i = r.below(t.len() as u64 - 1) as usize;
                            t.swap(i, i + 1);
                        }
                        _ => {}
                    }
                }
                t
            }
            None => (0..r.below(max_len as u64 + 1)).map(|_| *r.pick(&real_toks)).collect(),
        }
    } else {
        (0..r.below(max_len as u64 / 2 + 1)).map(|_| *r.pick(&real_toks)).collect()
    };
    toks.truncate(max_len);
    let gaps: Vec<u8> = toks.iter().map(|_| if r.chance(60) { 0 } else { r.below(3) as u8 }).collect();
    // costs
    let mut costs = BTreeMap::new();
    let cclass = if unit_costs { 0 } else { r.below(100) };
    let mut extreme = false;
    for t in &real_toks {
        let name = grm.token_name(TIdx(*t)).unwrap().to_string();
        let c = if cclass < 75 {
            1
        } else if cclass < 95 {
            1 + r.below(3) as u8
        } else if cclass < 97 {
            extreme = true;
            255
        } else {
            extreme = true;
            if r.chance(50) {
                255
            } else {
                1
            }
        };
        if c != 1 {
            costs.insert(name, c);
        }
    }
    let mut zero_width = vec![];
    if r.chance(10) {
        let mut prev = false;
        for _ in &toks {
            let z = !prev && r.chance(20);
            zero_width.push(z);
            prev = z;
        }
    }
    let tick = if extreme || gram::has_unproductive(grm) { 250_000 } else { 50_000 };
    let tokens = toks.iter().map(|t| grm.token_name(TIdx(*t)).unwrap().to_string()).collect();
    Some(RScenario {
        origin,
        grammar,
        tokens,
        gaps,
        costs,
        hash_seed,
        clock: ClockPolicy { tick_ns: tick, jumps: vec![] },
        policy_class: "tick".into(),
        base_reads: 0,
        zero_width,
        lex_error: None,
    })
}

/// Derive a time-fault variant of `base` whose fault-free run read the clock `n_reads` times.
pub fn gen_fault(r: &mut Rng, base: &RScenario, n_reads: u64) -> RScenario {
    let mut sc = base.clone();
    sc.base_reads = n_reads;
    let n = n_reads.max(1);
    // A fault-free run that already used up its budget is not slowed down further (Frac<1
    // would only multiply the work): it gets a jump instead.
    let exhausted = n_reads.saturating_mul(base.clock.tick_ns) >= BUDGET_NS;
    let roll = if exhausted { 50 + r.below(50) } else { r.below(100) };
    match roll {
        0..=24 => {
            let f = *r.pick(&[0.5f64, 0.8, 0.99]);
            sc.clock.tick_ns = ((f * BUDGET_NS as f64) / (n as f64)).floor() as u64;
            // Elapsed time between the first and the last read is (n-1) ticks < budget.
            sc.policy_class = "frac<1".into();
        }
        25..=49 => {
            let f = *r.pick(&[1.01f64, 1.5, 3.0]);
            sc.clock.tick_ns = ((f * BUDGET_NS as f64) / (n as f64)).ceil() as u64 + 1;
            sc.policy_class = "frac>1".into();
        }
        50..=84 => {
            let k = 1 + r.below(n);
            let d = *r.pick(&[BUDGET_NS + 1, 600_000_000, 3_600_000_000_000]);
            sc.clock.jumps = vec![(k, d)];
            sc.policy_class = "jump".into();
        }
        _ => {
            let k1 = 1 + r.below(n);
            let k2 = 1 + r.below(n);
            let d1 = *r.pick(&[100_000_000u64, 250_000_000, 400_000_000]);
            let d2 = *r.pick(&[100_000_000u64, 250_000_000, 400_000_000, 600_000_000]);
            sc.clock.jumps = vec![(k1.min(k2), d1), (k1.max(k2), d2)];
            sc.policy_class = "jump2".into();
        }
    }
    sc
}

// ---------------------------------------------------------------------------------------------
// Shrinking
// ---------------------------------------------------------------------------------------------

/// Does `sc` still show a finding of (`prop`, `class`) that is not a known finding?
pub fn still_fails(sc: &RScenario, prop: &str, class: &str, opts: &ExecOpts) -> bool {
    let rep = execute(sc, opts);
    rep.findings.iter().any(|f| f.known.is_none() && f.property == prop && f.class == class)
}

fn grammar_parts(g: &str) -> Option<(Vec<String>, Vec<(String, Vec<String>)>)> {
    let (head, body) = g.split_once("%%\n")?;
    let header: Vec<String> = head.lines().map(|s| s.to_string()).collect();
    let mut rules = vec![];
    for line in body.lines() {
        let line = line.trim();
        if line.is_empty() {
            continue;
        }
        let (name, rest) = line.split_once(':')?;
        let rest = rest.trim().strip_suffix(';')?;
        let alts: Vec<String> = rest.split('|').map(|a| a.trim().to_string()).collect();
        rules.push((name.trim().to_string(), alts));
    }
    Some((header, rules))
}
fn grammar_render(header: &[String], rules: &[(String, Vec<String>)]) -> String {
    let mut s = String::new();
    for h in header {
        s.push_str(h);
        s.push('\n');
    }
    s.push_str("%%\n");
    for (n, alts) in rules {
        s.push_str(&format!("{}: {};\n", n, alts.join(" | ")));
    }
    s
}

pub fn shrink(sc: &RScenario, prop: &str, class: &str, opts: &ExecOpts, budget_execs: usize) -> (RScenario, usize) {
    let mut cur = sc.clone();
    let mut execs = 0usize;
    let mut try_ = |cand: RScenario, cur: &mut RScenario, execs: &mut usize| -> bool {
        if *execs >= budget_execs || cand == *cur {
            return false;
        }
        *execs += 1;
        if still_fails(&cand, prop, class, opts) {
            *cur = cand;
            true
        } else {
            false
        }
    };
    loop {
        let mut progress = false;
        // tokens: drop halves, then singles
        let mut chunk = (cur.tokens.len() / 2).max(1);
        while chunk >= 1 && !cur.tokens.is_empty() {
            let mut i = 0;
            while i < cur.tokens.len() {
                let mut c = cur.clone();
                let end = (i + chunk).min(c.tokens.len());
                c.tokens.drain(i..end);
                c.gaps.drain(i..end.min(c.gaps.len()));
                if !c.zero_width.is_empty() {
                    let zl = c.zero_width.len();
                    c.zero_width.drain(i.min(zl)..end.min(zl));
                }
                // clock jump indices may go stale: keep as they are
                if try_(c, &mut cur, &mut execs) {
                    progress = true;
                } else {
                    i += chunk;
                }
            }
            if chunk == 1 {
                break;
            }
            chunk /= 2;
        }
        // clock: simplest first
        {
            let mut c = cur.clone();
            c.clock = ClockPolicy { tick_ns: 10_000, jumps: vec![] };
            c.policy_class = "tick".into();
            if try_(c, &mut cur, &mut execs) {
                progress = true;
            } else if cur.clock.jumps.len() > 1 {
                for i in 0..cur.clock.jumps.len() {
                    let mut c = cur.clone();
                    c.clock.jumps.remove(i);
                    if try_(c, &mut cur, &mut execs) {
                        progress = true;
                        break;
                    }
                }
            }
        }
        // costs -> 1
        if !cur.costs.is_empty() {
            let mut c = cur.clone();
            c.costs.clear();
            if try_(c, &mut cur, &mut execs) {
                progress = true;
            } else {
                for k in cur.costs.keys().cloned().collect::<Vec<_>>() {
                    let mut c = cur.clone();
                    c.costs.remove(&k);
                    if try_(c, &mut cur, &mut execs) {
                        progress = true;
                    }
                }
            }
        }
        // gaps -> 0
        if cur.gaps.iter().any(|g| *g != 0) {
            let mut c = cur.clone();
            c.gaps.iter_mut().for_each(|g| *g = 0);
            if try_(c, &mut cur, &mut execs) {
                progress = true;
            }
        }
        // grammar: drop header lines, alternatives, rules, symbols
        if let Some((header, rules)) = grammar_parts(&cur.grammar) {
            for hi in (1..header.len()).rev() {
                let mut h = header.clone();
                h.remove(hi);
                let mut c = cur.clone();
                c.grammar = grammar_render(&h, &rules);
                if try_(c, &mut cur, &mut execs) {
                    progress = true;
                    break;
                }
            }
        }
        if let Some((header, rules)) = grammar_parts(&cur.grammar) {
            'outer: for ri in (0..rules.len()).rev() {
                if ri > 0 {
                    let mut rs = rules.clone();
                    rs.remove(ri);
                    let mut c = cur.clone();
                    c.grammar = grammar_render(&header, &rs);
                    if try_(c, &mut cur, &mut execs) {
                        progress = true;
                        break 'outer;
                    }
                }
                for ai in (0..rules[ri].1.len()).rev() {
                    if rules[ri].1.len() > 1 {
                        let mut rs = rules.clone();
                        rs[ri].1.remove(ai);
                        let mut c = cur.clone();
                        c.grammar = grammar_render(&header, &rs);
                        if try_(c, &mut cur, &mut execs) {
                            progress = true;
                            break 'outer;
                        }
                    }
                    let syms: Vec<&str> = rules[ri].1[ai].split_whitespace().collect();
                    for si in 0..syms.len() {
                        let mut ns = syms.clone();
                        ns.remove(si);
                        let mut rs = rules.clone();
                        rs[ri].1[ai] = ns.join(" ");
                        let mut c = cur.clone();
                        c.grammar = grammar_render(&header, &rs);
                        if try_(c, &mut cur, &mut execs) {
                            progress = true;
                            break 'outer;
                        }
                    }
                }
            }
        }
        // hash seed: smallest of 0..16 that still fails
        if cur.hash_seed >= 16 {
            for h in 0..16 {
                let mut c = cur.clone();
                c.hash_seed = h;
                if try_(c, &mut cur, &mut execs) {
                    progress = true;
                    break;
                }
            }
        }
        if !progress || execs >= budget_execs {
            break;
        }
    }
    (cur, execs)
}

#[allow(dead_code)]
pub fn touch_unused() {
    let _ = reflr::RED_CAP;
}
