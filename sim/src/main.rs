//! `sim`: deterministic simulation harness for grmtools. See /verif/DESIGN.md.
mod common;
mod driver_r;
mod buildstep;
mod engine_b;
mod engine_d;
mod diag_n;
mod engine_n;
mod np_n;
mod engine_r;
mod gram;
mod lexstub;
mod reflr;
mod rng;
mod seams;

use common::*;

fn usage() -> i32 {
    eprintln!("usage: sim selftest | sim check <C05|C06|C07|C08|C15|C18|C19> <quick|thorough> | sim replay <file> [--quiet]");
    EXIT_HARNESS
}

fn main() {
    let args: Vec<String> = std::env::args().skip(1).collect();
    let code = real_main(&args);
    // whatever this process put under its own scratch directory is of no use to anyone else
    for base in ["/dev/shm".to_string(), std::env::temp_dir().to_string_lossy().to_string()] {
        let d = std::path::Path::new(&base).join(format!("verif-{}", std::process::id()));
        if d.is_dir() {
            let _ = std::fs::remove_dir_all(d);
        }
    }
    std::process::exit(code);
}

fn real_main(args: &[String]) -> i32 {
    let Some(cmd) = args.first() else { return usage() };
    if cmd != "build-step" {
        // (a build step is itself the simulated process: nothing may run before its entropy is
        // installed, and it does exactly one build, so first-use effects are the same every time)
        let quiet_hook = std::panic::take_hook();
        std::panic::set_hook(Box::new(|_| {}));
        seams::warmup();
        std::panic::set_hook(quiet_hook);
    }
    match cmd.as_str() {
        // internal sub-commands (child processes)
        "r-worker" => return driver_r::worker_main(&args[1..]),
        "r-one" => return driver_r::one_main(&args[1..]),
        "r-shrink" => return driver_r::shrink_main(&args[1], &args[2]),
        "r-canon" => return driver_r::canon_main(),
        "r-chain" => return if engine_r::run_long_chain_probe(args[1].parse().unwrap()) { 0 } else { 4 },
        "r-deep" => return if engine_r::run_deep_stack_probe(args[1].parse().unwrap(), args[2].parse().unwrap()) { 0 } else { 4 },
        "build-step" => return buildstep::main(&args[1], &args[2]),
        "replay-inner" => return driver_r::replay_inner_main(&args[1], args.iter().any(|a| a == "--quiet")),
        _ => {}
    }
    if let Err(e) = seams::selftest() {
        eprintln!("harness error: seam self-test failed: {e}");
        return EXIT_HARNESS;
    }
    match cmd.as_str() {
        "selftest" => {
            println!("seams live: getrandom and clock_gettime(CLOCK_MONOTONIC) are interposed");
            EXIT_OK
        }
        "check" => {
            let (Some(prop), Some(tier)) = (args.get(1), args.get(2)) else { return usage() };
            if tier != "quick" && tier != "thorough" {
                return usage();
            }
            match prop.as_str() {
                "C05" | "C06" | "C07" | "C08" => driver_r::check_main(prop, tier),
                "C19" => engine_n::check_main(tier),
                "C15" => engine_d::check_main(tier),
                "C18" => engine_b::check_main(tier),
                _ => usage(),
            }
        }
        "replay" => {
            let Some(p) = args.get(1) else { return usage() };
            let quiet = args.iter().any(|a| a == "--quiet");
            let v: serde_json::Value = match std::fs::read_to_string(p).ok().and_then(|s| serde_json::from_str(&s).ok()) {
                Some(v) => v,
                None => {
                    eprintln!("harness error: cannot read {p}");
                    return EXIT_HARNESS;
                }
            };
            match v["engine"].as_str() {
                Some("R") => driver_r::replay_main(p, quiet),
                Some("R-chain") => {
                    let exe = std::env::current_exe().unwrap();
                    let st = driver_r::run_guarded(&exe, &["r-chain", &v["stack_mb"].to_string()], 120.0);
                    if st == Some(0) {
                        println!("replay: the long-chain probe returned normally (not reproduced)");
                        EXIT_OK
                    } else {
                        println!("VIOLATION property=C07 replay={p} class=C07-a-abort-after-long-repair-chain (child status {st:?})");
                        EXIT_VIOLATION
                    }
                }
                Some("R-deep") => {
                    let exe = std::env::current_exe().unwrap();
                    let st = driver_r::run_guarded(&exe, &["r-deep", &v["n"].to_string(), &v["stack_mb"].to_string()], 120.0);
                    if st == Some(0) {
                        println!("replay: the deep-stack probe returned normally (not reproduced)");
                        EXIT_OK
                    } else {
                        println!("VIOLATION property=C07 replay={p} class=C07-a-abort-under-deep-stack (child status {st:?})");
                        EXIT_VIOLATION
                    }
                }
                Some("N") => engine_n::replay_main(&v, p, quiet),
                Some("N-np") => np_n::replay(&v, p),
                Some("D") => engine_d::replay_main(&v, p, quiet),
                Some("B") => engine_b::replay_main(&v, p, quiet),
                _ => {
                    eprintln!("harness error: unknown engine in {p}");
                    EXIT_HARNESS
                }
            }
        }
        _ => usage(),
    }
}
