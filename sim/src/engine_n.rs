//! Engine N (C19): the newline cache as a stream consumer. History = feed(chunk)* with the full
//! query sweep after every fragment, against a naive reference on the concatenated prefix.
use std::collections::BTreeMap;
use std::panic::{catch_unwind, AssertUnwindSafe};
use std::sync::Mutex;

use cfgrammar::{newlinecache::NewlineCache, Span};
use lrlex::{DefaultLexerTypes, LRLexError, LRNonStreamingLexer, LRNonStreamingLexerDef, LexerDef};
use lrpar::diagnostics::SpannedDiagnosticFormatter;
use lrpar::Lexer;
use lrpar::{LexParseError, NonStreamingLexer};
use serde::{Deserialize, Serialize};
use serde_json::{json, Value};

use crate::common::*;
use crate::rng::{fnv, fnv_add, mix, Rng};
use crate::seams::real_now_s;

const ENGINE_TAG: u64 = 0x4e;

#[derive(Serialize, Deserialize, Clone, Debug, PartialEq)]
pub struct NScenario {
    pub chunks: Vec<String>,
}

#[derive(Clone, Debug, Serialize, Deserialize)]
pub struct NFinding {
    pub class: String,
    pub detail: String,
    pub known: Option<String>,
}

#[derive(Default)]
pub struct NReport {
    pub findings: Vec<NFinding>,
    pub queries: u64,
    pub probes: BTreeMap<&'static str, u64>,
    pub log_hash: u64,
}

/// At most 6 findings per (class, known) are kept per history; known-signature matches never
/// crowd out anything else.
fn push_finding(rep: &mut NReport, class: &str, detail: String, known: Option<&str>) {
    let n = rep.findings.iter().filter(|f| f.class == class && f.known.as_deref() == known).count();
    if n < 6 {
        rep.findings.push(NFinding { class: class.into(), detail, known: known.map(|s| s.into()) });
    } else if known.is_some() {
        *rep.probes.entry("known_signature_matches_beyond_the_per_history_cap").or_insert(0) += 1;
    }
}

// ---- naive reference ------------------------------------------------------------------------
fn ref_line(p: &str, off: usize) -> usize {
    1 + p.as_bytes()[..off].iter().filter(|b| **b == b'\n').count()
}
fn ref_line_start(p: &str, off: usize) -> usize {
    p.as_bytes()[..off].iter().rposition(|b| *b == b'\n').map(|i| i + 1).unwrap_or(0)
}
fn ref_col(p: &str, off: usize) -> usize {
    let ls = ref_line_start(p, off);
    let mut col = 1 + p[ls..off].chars().count();
    let b = p.as_bytes();
    if off < b.len() && b[off] == b'\n' && off > ls && b[off - 1] == b'\r' {
        // the LF of a CR LF pair does not count: it has the CR's column
        col -= 1;
    }
    col
}
fn ref_line_end(p: &str, from: usize) -> usize {
    p.as_bytes()[from..].iter().position(|b| *b == b'\n').map(|i| from + i).unwrap_or(p.len())
}
/// (start of the line of the first byte, end of the line of the last byte); zero-length spans
/// use their position.
fn ref_span_lines(p: &str, s: usize, e: usize) -> (usize, usize) {
    let st = ref_line_start(p, s);
    let last = if e > s { e - 1 } else { s };
    (st, ref_line_end(p, last.min(p.len())))
}

/// All (start, end) pairs of boundaries for short texts; for long ones a deterministic sample:
/// every pair among the first and last dozen boundaries, every boundary with the text's start
/// and end, neighbours, and a pseudo-random remainder derived from the text length.
fn span_pairs(bs: &[usize]) -> Vec<(usize, usize)> {
    let n = bs.len();
    let mut v = vec![];
    if n <= 48 {
        for i in 0..n {
            for j in i..n {
                v.push((bs[i], bs[j]));
            }
        }
        return v;
    }
    let edge: Vec<usize> = (0..12).chain(n - 12..n).collect();
    for (a, &i) in edge.iter().enumerate() {
        for &j in &edge[a..] {
            v.push((bs[i], bs[j]));
        }
    }
    for i in 0..n {
        v.push((bs[0], bs[i]));
        v.push((bs[i], bs[n - 1]));
        v.push((bs[i], bs[i]));
        if i + 1 < n {
            v.push((bs[i], bs[i + 1]));
        }
        if i + 3 < n {
            v.push((bs[i], bs[i + 3]));
        }
    }
    let mut x = (n as u64).wrapping_mul(0x9E3779B97F4A7C15);
    for _ in 0..400 {
        let a = (crate::rng::splitmix(&mut x) % n as u64) as usize;
        let b = (crate::rng::splitmix(&mut x) % n as u64) as usize;
        v.push((bs[a.min(b)], bs[a.max(b)]));
    }
    v
}

fn boundaries(p: &str) -> Vec<usize> {
    let mut v: Vec<usize> = p.char_indices().map(|(i, _)| i).collect();
    v.push(p.len());
    v
}

pub fn execute(sc: &NScenario, full_sweep_every_feed: bool) -> NReport {
    let mut rep = NReport::default();
    let mut cache = NewlineCache::new();
    let mut prefix = String::new();
    let mut lh = fnv(b"N");
    let nchunks = sc.chunks.len();
    let mut add = |rep: &mut NReport, class: &str, detail: String, known: Option<&str>| {
        push_finding(rep, class, detail, known);
    };
    for (ci, ch) in sc.chunks.iter().enumerate() {
        if ch.is_empty() {
            *rep.probes.entry("empty_chunks").or_insert(0) += 1;
        }
        if prefix.ends_with('\r') && ch.starts_with('\n') {
            *rep.probes.entry("cr_lf_split_across_chunks").or_insert(0) += 1;
        }
        if ch.chars().next().map_or(false, |c| c.len_utf8() > 1) || prefix.chars().last().map_or(false, |c| c.len_utf8() > 1) {
            *rep.probes.entry("cut_next_to_multibyte_char").or_insert(0) += 1;
        }
        if prefix.ends_with('\n') {
            *rep.probes.entry("cut_right_after_newline").or_insert(0) += 1;
        }
        let r = catch_unwind(AssertUnwindSafe(|| cache.feed(ch)));
        if r.is_err() {
            add(&mut rep, "feed-panic", format!("feed of chunk {ci} {:?} panicked", ch), None);
            break;
        }
        prefix.push_str(ch);
        let last = ci + 1 == nchunks;
        if !last {
            *rep.probes.entry("query_sweeps_before_end_of_stream").or_insert(0) += 1;
        }
        let p = prefix.as_str();
        let bs = boundaries(p);
        // offsets
        for &off in &bs {
            rep.queries += 3;
            let ln = catch_unwind(AssertUnwindSafe(|| cache.byte_to_line_num(off)));
            let lb = catch_unwind(AssertUnwindSafe(|| cache.byte_to_line_byte(off)));
            let lc = catch_unwind(AssertUnwindSafe(|| cache.byte_to_line_num_and_col_num(p, off)));
            let (el, es, ec) = (ref_line(p, off), ref_line_start(p, off), ref_col(p, off));
            lh = fnv_add(lh, format!("{:?}{:?}{:?}", ln.as_ref().ok(), lb.as_ref().ok(), lc.as_ref().ok()).as_bytes());
            match ln {
                Ok(Some(l)) if l == el => {}
                Ok(x) => add(&mut rep, "line-number", format!("after feed {ci}: byte_to_line_num({off}) = {:?}, expected {el}; prefix {:?}", x, p), None),
                Err(_) => add(&mut rep, "offset-query-panic", format!("after feed {ci}: byte_to_line_num({off}) panicked; prefix {:?}", p), None),
            }
            match lb {
                Ok(Some(l)) if l == es => {}
                Ok(x) => add(&mut rep, "line-start", format!("after feed {ci}: byte_to_line_byte({off}) = {:?}, expected {es}; prefix {:?}", x, p), None),
                Err(_) => add(&mut rep, "offset-query-panic", format!("after feed {ci}: byte_to_line_byte({off}) panicked; prefix {:?}", p), None),
            }
            match lc {
                Ok(Some(lc)) if lc == (el, ec) => {}
                Ok(x) => add(&mut rep, "line-col", format!("after feed {ci}: byte_to_line_num_and_col_num({off}) = {:?}, expected ({el}, {ec}); prefix {:?}", x, p), None),
                Err(_) => add(&mut rep, "offset-query-panic", format!("after feed {ci}: byte_to_line_num_and_col_num({off}) panicked; prefix {:?}", p), None),
            }
        }
        // beyond the prefix
        for extra in [1usize, 2, 7] {
            rep.queries += 2;
            let off = p.len() + extra;
            if !matches!(catch_unwind(AssertUnwindSafe(|| cache.byte_to_line_num(off))), Ok(None)) {
                add(&mut rep, "beyond-prefix", format!("after feed {ci}: byte_to_line_num({off}) is not None for a prefix of {} bytes", p.len()), None);
            }
            if !matches!(catch_unwind(AssertUnwindSafe(|| cache.byte_to_line_num_and_col_num(p, off))), Ok(None)) {
                add(&mut rep, "beyond-prefix", format!("after feed {ci}: byte_to_line_num_and_col_num({off}) is not None for a prefix of {} bytes", p.len()), None);
            }
        }
        // spans
        if last || full_sweep_every_feed {
            for (s, e) in span_pairs(&bs) {
                {
                    rep.queries += 1;
                    let exp = ref_span_lines(p, s, e);
                    let got = catch_unwind(AssertUnwindSafe(|| cache.span_line_bytes(Span::new(s, e))));
                    lh = fnv_add(lh, format!("{:?}", got.as_ref().ok()).as_bytes());
                    match got {
                        Ok(g) if g == exp => {}
                        Ok(g) => {
                            // known-finding signature: non-empty span whose exclusive end is a
                            // line start, and the answer is the reference computed as if `end`
                            // were inclusive (the following line is added)
                            let ends_at_line_start = e > s && p.as_bytes()[e - 1] == b'\n';
                            let incl = (exp.0, ref_line_end(p, e.min(p.len())));
                            if ends_at_line_start && g == incl {
                                *rep.probes.entry("spans_ending_at_a_line_start").or_insert(0) += 1;
                                add(&mut rep, "span-lines", format!("span_line_bytes({s}..{e}) = {:?}, expected {:?}; text {:?}", g, exp, p), Some("span-end-at-line-start"));
                            } else {
                                add(&mut rep, "span-lines", format!("after feed {ci}: span_line_bytes({s}..{e}) = {:?}, expected {:?}; text {:?}", g, exp, p), None);
                            }
                        }
                        Err(_) => add(&mut rep, "span-lines-panic", format!("after feed {ci}: span_line_bytes({s}..{e}) panicked; text {:?}", p), None),
                    }
                }
            }
        }
    }
    // On top of the fragment-fed cache: LRNonStreamingLexer::line_col / span_lines_str and
    // LexParseError::pp.
    let p = prefix.as_str();
    if rep.findings.iter().all(|f| f.class != "feed-panic") {
        let lexer: LRNonStreamingLexer<DefaultLexerTypes<u32>> = LRNonStreamingLexer::new(p, vec![], cache);
        let bs = boundaries(p);
        let dpath = std::path::PathBuf::from("t");
        let dfmt = SpannedDiagnosticFormatter::new(p, &dpath);
        for &s in bs.iter() {
            // the "msg at path:line:col" header of diagnostics
            rep.queries += 1;
            let exp = format!("m at t:{}:{}", ref_line(p, s), ref_col(p, s));
            match catch_unwind(AssertUnwindSafe(|| dfmt.file_location_msg("m", Some(Span::new(s, s))))) {
                Ok(m) if m == exp => {}
                Ok(m) => add(&mut rep, "diagnostic-location", format!("file_location_msg for byte {s}: {:?}, expected {:?}; text {:?}", m, exp, p), None),
                Err(_) => add(&mut rep, "diagnostic-location-panic", format!("file_location_msg for byte {s} panicked; text {:?}", p), None),
            }
        }
        for &s in bs.iter() {
            // pretty-printed error position
            rep.queries += 1;
            let e: LexParseError<u32, DefaultLexerTypes<u32>> = LexParseError::LexError(LRLexError::new(Span::new(s, s)));
            let exp = format!("Lexing error at line {} column {}.", ref_line(p, s), ref_col(p, s));
            match catch_unwind(AssertUnwindSafe(|| e.pp(&lexer, &|_| None))) {
                Ok(m) if m == exp => {}
                Ok(m) => add(&mut rep, "pp-position", format!("pp for an error at byte {s}: {:?}, expected {:?}; text {:?}", m, exp, p), None),
                Err(_) => add(&mut rep, "pp-panic", format!("pp for an error at byte {s} panicked; text {:?}", p), None),
            }
        }
        for (s, e) in span_pairs(&bs) {
            {
                rep.queries += 2;
                let sp = Span::new(s, e);
                let exp_lc = ((ref_line(p, s), ref_col(p, s)), (ref_line(p, e), ref_col(p, e)));
                match catch_unwind(AssertUnwindSafe(|| lexer.line_col(sp))) {
                    Ok(lc) if lc == exp_lc => {}
                    Ok(lc) => add(&mut rep, "lexer-line-col", format!("line_col({s}..{e}) = {:?}, expected {:?}; text {:?}", lc, exp_lc, p), None),
                    Err(_) => add(&mut rep, "lexer-line-col-panic", format!("line_col({s}..{e}) panicked; text {:?}", p), None),
                }
                // a lexing error whose span is not empty (a hand-written lexer may report the
                // whole offending text) is located at its first byte
                if e > s {
                    rep.queries += 1;
                    let err: LexParseError<u32, DefaultLexerTypes<u32>> = LexParseError::LexError(LRLexError::new(sp));
                    let exp = format!("Lexing error at line {} column {}.", ref_line(p, s), ref_col(p, s));
                    match catch_unwind(AssertUnwindSafe(|| err.pp(&lexer, &|_| None))) {
                        Ok(m) if m == exp => {}
                        Ok(m) => add(&mut rep, "pp-position", format!("pp for an error spanning bytes {s}..{e}: {:?}, expected {:?}; text {:?}", m, exp, p), None),
                        Err(_) => add(&mut rep, "pp-panic", format!("pp for an error spanning bytes {s}..{e} panicked; text {:?}", p), None),
                    }
                }
                let (a, b) = ref_span_lines(p, s, e);
                match catch_unwind(AssertUnwindSafe(|| lexer.span_lines_str(sp))) {
                    Ok(st) if st == &p[a..b] => {}
                    Ok(st) => {
                        let ends_at_line_start = e > s && p.as_bytes()[e - 1] == b'\n';
                        let incl_end = ref_line_end(p, e.min(p.len()));
                        if ends_at_line_start && st == &p[a..incl_end] {
                            add(&mut rep, "lexer-span-lines", format!("span_lines_str({s}..{e}) = {:?}, expected {:?}", st, &p[a..b]), Some("span-end-at-line-start"));
                        } else {
                            add(&mut rep, "lexer-span-lines", format!("span_lines_str({s}..{e}) = {:?}, expected {:?}; text {:?}", st, &p[a..b], p), None);
                        }
                    }
                    Err(_) => add(&mut rep, "lexer-span-lines-panic", format!("span_lines_str({s}..{e}) panicked; text {:?}", p), None),
                }
            }
        }
    }
    // The real lexer: `LRNonStreamingLexerDef::lexer` builds its own newline cache while it
    // consumes the input (including the paths that stop at a lexing error).
    real_lexer_checks(&mut rep, p);
    underline_checks(&mut rep, p);
    {
        // multi-span diagnostics on this text; every eighth text also seeds the layout of an
        // ambiguous grammar whose conflict report is re-rendered
        let bs = boundaries(p);
        let mut fs = vec![];
        let mut hits: Vec<&'static str> = vec![];
        let mut q = 0u64;
        crate::diag_n::multi_span_checks(p, &bs, &mut fs, &mut |k| hits.push(k), &mut q);
        let h = fnv(p.as_bytes());
        if h % 8 == 0 {
            crate::diag_n::conflict_checks(h, &mut fs, &mut |k| hits.push(k), &mut q);
        }
        if h % 8 == 1 {
            crate::diag_n::header_checks(h, &mut fs, &mut |k| hits.push(k), &mut q);
        }
        if h % 8 == 3 {
            crate::diag_n::front_end_error_checks(h, &mut fs, &mut |k| hits.push(k), &mut q);
        }
        if h % 16 == 2 {
            let mut kn = vec![];
            crate::diag_n::action_error_checks(h, &scratch_base().join("act"), &mut fs, &mut kn, &mut |k| hits.push(k), &mut q);
            for (id, d) in kn {
                push_finding(&mut rep, "action-error-location", d, Some(id));
            }
        }
        rep.queries += q;
        for k in hits {
            *rep.probes.entry(k).or_insert(0) += 1;
        }
        for f in fs {
            push_finding(&mut rep, f.class, f.detail, None);
        }
    }
    rep.log_hash = lh;
    rep
}

fn lexerdef() -> &'static LRNonStreamingLexerDef<DefaultLexerTypes<u32>> {
    static DEF: std::sync::OnceLock<LRNonStreamingLexerDef<DefaultLexerTypes<u32>>> = std::sync::OnceLock::new();
    DEF.get_or_init(|| {
        // 'x' has a rule but gets no token id (as when a lexer token is missing from the grammar):
        // lexing stops there after the rule has matched. Multi-byte symbols other than e-acute
        // match no rule at all: the other way lexing stops.
        let src = "%%\na+ \"A\"\nb+ \"B\"\nx \"X\"\n\u{e9} \"E\"\n[ \\n\\r]+ ;\n";
        let mut def = LRNonStreamingLexerDef::<DefaultLexerTypes<u32>>::from_str(src).expect("lexer definition");
        // token ids as the grammar of `parser_tables` numbers them; "X" stays without an id
        let (grm, _) = parser_tables();
        let map: std::collections::HashMap<&str, u32> = grm.tokens_map().iter().map(|(k, v)| (*k, v.0)).collect();
        let _ = def.set_rule_ids(&map);
        def
    })
}

/// A small grammar over the real lexer's tokens, so that real parse errors with real repair
/// sequences (Insert / Delete / Shift of lexemes that may contain or follow newlines) reach
/// `LexParseError::pp`.
fn parser_tables() -> &'static (cfgrammar::yacc::YaccGrammar<u32>, lrtable::StateTable<u32>) {
    static T: std::sync::OnceLock<(cfgrammar::yacc::YaccGrammar<u32>, lrtable::StateTable<u32>)> = std::sync::OnceLock::new();
    T.get_or_init(|| {
        let grm = cfgrammar::yacc::YaccGrammar::<u32>::new_with_storaget(
            cfgrammar::yacc::YaccKind::Original(cfgrammar::yacc::YaccOriginalActionKind::GenericParseTree),
            "%start S\n%%\nS: 'A' S 'B' | 'E' S | ;\n",
        )
        .expect("grammar");
        let (_, st) = lrtable::from_yacc(&grm, lrtable::Minimiser::Pager).expect("table");
        (grm, st)
    })
}

/// `pp` of a parse error as its documentation describes it: position of the error lexeme, then
/// the numbered repair sequences; directly adjacent Deletes are merged into one, newlines in
/// quoted text are escaped.
fn ref_pp(p: &str, e: &lrpar::ParseError<lrlex::DefaultLexeme<u32>, u32>, grm: &cfgrammar::yacc::YaccGrammar<u32>) -> String {
    use lrpar::{Lexeme, ParseRepair};
    let at = e.lexeme().span().start();
    let mut out = format!("Parsing error at line {} column {}.", ref_line(p, at), ref_col(p, at));
    let n = e.repairs().len();
    if n == 0 {
        out.push_str(" No repair sequences found.");
        return out;
    }
    out.push_str(" Repair sequences found:");
    let digits = |x: usize| x.to_string().len();
    for (i, rs) in e.repairs().iter().enumerate() {
        out.push_str(&format!("\n  {}{}: ", " ".repeat(digits(n) - digits(i + 1) + 1), i + 1));
        let mut items: Vec<String> = vec![];
        let mut k = 0;
        while k < rs.len() {
            match rs[k] {
                ParseRepair::Insert(t) => {
                    items.push(format!("Insert {}", grm.token_epp(t).unwrap_or("?")));
                    k += 1;
                }
                ParseRepair::Shift(l) => {
                    items.push(format!("Shift {}", p[l.span().start()..l.span().end()].replace('\n', "\\n")));
                    k += 1;
                }
                ParseRepair::Delete(l) => {
                    let st = l.span().start();
                    let mut end = l.span().end();
                    k += 1;
                    while k < rs.len() {
                        match rs[k] {
                            ParseRepair::Delete(l2) if l2.span().start() == end => {
                                end = l2.span().end();
                                k += 1;
                            }
                            _ => break,
                        }
                    }
                    items.push(format!("Delete {}", p[st..end].replace('\n', "\\n")));
                }
                _ => {
                    items.push("?".into());
                    k += 1;
                }
            }
        }
        out.push_str(&items.join(", "));
    }
    out
}

fn real_lexer_checks(rep: &mut NReport, p: &str) {
    let def = lexerdef();
    let lexer = match catch_unwind(AssertUnwindSafe(|| def.lexer(p))) {
        Ok(l) => l,
        Err(_) => {
            rep.findings.push(NFinding { class: "real-lexer-panic".into(), detail: format!("lexer() panicked on {:?}", p), known: None });
            return;
        }
    };
    let mut add = |rep: &mut NReport, class: &str, detail: String, known: Option<&str>| {
        push_finding(rep, class, detail, known);
    };
    let items: Vec<Result<lrlex::DefaultLexeme<u32>, LRLexError>> = match catch_unwind(AssertUnwindSafe(|| lexer.iter().collect())) {
        Ok(v) => v,
        Err(_) => vec![],
    };
    if items.iter().any(|x| x.is_err()) {
        *rep.probes.entry("texts_where_the_real_lexer_stops_at_an_error").or_insert(0) += 1;
    }
    use lrpar::{LexError, Lexeme};
    if !items.is_empty() && items.iter().all(|x| x.is_ok()) && p.len() <= 64 {
        let (grm, st) = parser_tables();
        // as a simulated process (hash seed from the text, simulated clock): which repairs are
        // found, and in which order, is then a function of the text alone
        let pol = crate::seams::ClockPolicy { tick_ns: 1_000, jumps: vec![] };
        // The same lexer object the queries above went to is handed to the simulated process (this
        // thread waits for it): by address, so that the harness builds whether or not the type is
        // `Sync` - a second `iter()` on it must yield the same lexemes as the first.
        struct Shared<T>(*const T);
        unsafe impl<T> Send for Shared<T> {}
        unsafe impl<T> Sync for Shared<T> {}
        let sh = Shared(&lexer as *const _);
        let (r, _) = crate::seams::sim_process(fnv(p.as_bytes()), Some(&pol), || {
            let sh = &sh;
            let lexer: &LRNonStreamingLexer<DefaultLexerTypes<u32>> = unsafe { &*sh.0 };
            lrpar::RTParserBuilder::<u32, DefaultLexerTypes<u32>>::new(grm, st).parse_map(lexer, &|_| (), &|_, _| ()).1
        });
        if let crate::seams::SimOutcome::Ok(errs) = r {
            for e in errs {
                if let LexParseError::ParseError(pe) = &e {
                    rep.queries += 1;
                    *rep.probes.entry("parse_errors_pretty_printed").or_insert(0) += 1;
                    if pe.repairs().iter().any(|s| s.windows(2).any(|w| matches!((&w[0], &w[1]), (lrpar::ParseRepair::Delete(_), lrpar::ParseRepair::Delete(_))))) {
                        *rep.probes.entry("pretty_printed_sequences_with_consecutive_deletes").or_insert(0) += 1;
                    }
                    let exp = ref_pp(p, pe, grm);
                    match catch_unwind(AssertUnwindSafe(|| e.pp(&lexer, &|t| grm.token_epp(t)))) {
                        Ok(m) if m == exp => {}
                        Ok(m) => push_finding(rep, "parse-error-pp", format!("pp of a parse error: {:?}, expected {:?}; text {:?}", m, exp, p), None),
                        Err(_) => push_finding(rep, "parse-error-pp-panic", format!("pp of a parse error panicked; text {:?}", p), None),
                    }
                }
            }
        }
    }
    let mut spans: Vec<Span> = vec![];
    for it in &items {
        match it {
            Ok(l) => spans.push(l.span()),
            Err(e) => {
                let sp = e.span();
                spans.push(sp);
                rep.queries += 1;
                let err: LexParseError<u32, DefaultLexerTypes<u32>> = LexParseError::LexError(LRLexError::new(sp));
                let exp = format!("Lexing error at line {} column {}.", ref_line(p, sp.start()), ref_col(p, sp.start()));
                match catch_unwind(AssertUnwindSafe(|| err.pp(&lexer, &|_| None))) {
                    Ok(m) if m == exp => {}
                    Ok(m) => add(rep, "real-lexer-pp-position", format!("pp of the lexing error at byte {}: {:?}, expected {:?}; text {:?}", sp.start(), m, exp, p), None),
                    Err(_) => add(rep, "real-lexer-pp-panic", format!("pp of the lexing error at byte {} panicked; text {:?}", sp.start(), p), None),
                }
            }
        }
    }
    // every lexeme span, plus spans from each lexeme to the end of the text
    let n = p.len();
    let mut qs: Vec<(usize, usize)> = spans.iter().map(|s| (s.start(), s.end())).collect();
    for s in &spans {
        qs.push((s.start(), n));
        qs.push((0, s.end()));
    }
    qs.push((n, n));
    for (s, e) in qs {
        rep.queries += 2;
        let sp = Span::new(s, e);
        let exp_lc = ((ref_line(p, s), ref_col(p, s)), (ref_line(p, e), ref_col(p, e)));
        match catch_unwind(AssertUnwindSafe(|| lexer.line_col(sp))) {
            Ok(lc) if lc == exp_lc => {}
            Ok(lc) => add(rep, "real-lexer-line-col", format!("line_col({s}..{e}) = {:?}, expected {:?}; text {:?}", lc, exp_lc, p), None),
            Err(_) => add(rep, "real-lexer-line-col-panic", format!("line_col({s}..{e}) panicked; text {:?}", p), None),
        }
        let (a, b) = ref_span_lines(p, s, e);
        match catch_unwind(AssertUnwindSafe(|| lexer.span_lines_str(sp))) {
            Ok(st) if st == &p[a..b] => {}
            Ok(st) => {
                let ends_at_line_start = e > s && p.as_bytes()[e - 1] == b'\n';
                let incl_end = ref_line_end(p, e.min(p.len()));
                if ends_at_line_start && st == &p[a..incl_end] {
                    add(rep, "real-lexer-span-lines", format!("span_lines_str({s}..{e}) = {:?}, expected {:?}", st, &p[a..b]), Some("span-end-at-line-start"));
                } else {
                    add(rep, "real-lexer-span-lines", format!("span_lines_str({s}..{e}) = {:?}, expected {:?}; text {:?}", st, &p[a..b], p), None);
                }
            }
            Err(_) => add(rep, "real-lexer-span-lines-panic", format!("span_lines_str({s}..{e}) panicked; text {:?}", p), None),
        }
    }
}

/// The underlined excerpt printed with diagnostics: for LF-only ASCII text and a span that does
/// not end at a line start (where the extent is the known finding), every covered line is
/// echoed as `<line>| <text>` and underlined from the column of the span's first byte on it.
fn underline_checks(rep: &mut NReport, p: &str) {
    if p.contains('\r') || p.is_empty() || p.len() > 64 {
        return;
    }
    use unicode_width::UnicodeWidthStr;
    let path = std::path::PathBuf::from("t");
    let fmt = SpannedDiagnosticFormatter::new(p, &path);
    let bs = boundaries(p);
    let mut count = 0;
    for (i, &s) in bs.iter().enumerate() {
        for &e in &bs[i..] {
            if e == s || p.as_bytes()[e - 1] == b'\n' || p.as_bytes()[s] == b'\n' {
                continue;
            }
            count += 1;
            if count > 120 {
                return;
            }
            rep.queries += 1;
            // reference
            let mut exp = String::new();
            let mut pos = s;
            loop {
                let ls = ref_line_start(p, pos);
                let le = ref_line_end(p, pos);
                let ln = ref_line(p, pos);
                let seg_end = e.min(le);
                exp.push_str(&format!("{}| {}\n", ln, &p[ls..le]));
                // columns are display columns (unicode-width's `width`, as terminals show them)
                exp.push_str(&" ".repeat(ln.to_string().len() + 2 + UnicodeWidthStr::width(&p[ls..pos])));
                exp.push_str(&"^".repeat(UnicodeWidthStr::width(&p[pos..seg_end]).max(1)));
                if e <= le {
                    exp.push_str(" msg");
                    break;
                }
                exp.push('\n');
                pos = le + 1;
                if pos >= e {
                    // the span ends with this line's newline only: excluded above
                    break;
                }
            }
            if ref_line(p, s) != ref_line(p, e - 1) {
                *rep.probes.entry("multi_line_underlines").or_insert(0) += 1;
                if ref_line(p, e - 1) >= 10 && ref_line(p, s) < 10 {
                    *rep.probes.entry("underlines_crossing_line_9_to_10").or_insert(0) += 1;
                }
            }
            match catch_unwind(AssertUnwindSafe(|| fmt.underline_span_with_text(Span::new(s, e), "msg".into(), '^'))) {
                Ok(got) if got == exp => {}
                Ok(got) => {
                    push_finding(rep, "underline-format", format!("underline_span_with_text({s}..{e}) on {:?}: got {:?}, expected {:?}", p, got, exp), None);
                }
                Err(_) => {
                    push_finding(rep, "underline-panic", format!("underline_span_with_text({s}..{e}) panicked on {:?}", p), None);
                }
            }
        }
    }
}

// "→" and "§" are of East-Asian-ambiguous width (1 column, 2 under CJK rules)
const ALPHABET: &[&str] = &["a", "b", " ", "\n", "\n", "\r\n", "\r", "é", "❤", "𝄞", "x", "\n", "→", "§"];

pub fn generate(r: &mut Rng, max_bytes: usize) -> NScenario {
    let mut text = String::new();
    // size is varied per history: one text in a hundred is long (up to 700 bytes, newline-heavy,
    // so that caches with several hundred line starts occur); spans are sampled there
    let long = r.chance(1);
    let max_bytes = if long { 100 + r.below(600) as usize } else { max_bytes };
    let target = if long { max_bytes } else { r.below(max_bytes as u64 + 1) as usize };
    let nl_heavy = long || r.chance(30);
    while text.len() < target {
        let s = if nl_heavy && r.chance(40) { "\n" } else { *r.pick(ALPHABET) };
        if text.len() + s.len() > max_bytes {
            break;
        }
        text.push_str(s);
    }
    match r.below(4) {
        0 if !text.ends_with('\n') && text.len() < max_bytes => text.push('\n'),
        1 => {
            while text.ends_with('\n') {
                text.pop();
            }
        }
        _ => {}
    }
    // cut points at character boundaries (a cut between CR and LF is a character boundary)
    let bs = boundaries(&text);
    let ncuts = match r.below(10) {
        0 => 0,
        1..=4 => 1,
        5..=7 => 2,
        _ => 3 + r.below(4) as usize,
    };
    let mut cuts: Vec<usize> = (0..ncuts).map(|_| *r.pick(&bs)).collect();
    // bias: cut between CR and LF, right after a newline
    if r.chance(30) {
        if let Some(i) = text.find("\r\n") {
            cuts.push(i + 1);
        }
    }
    if r.chance(20) {
        if let Some(i) = text.find('\n') {
            cuts.push(i + 1);
        }
    }
    cuts.sort_unstable(); // duplicates give empty chunks
    let mut chunks = vec![];
    let mut prev = 0;
    for c in cuts {
        chunks.push(text[prev..c].to_string());
        prev = c;
    }
    chunks.push(text[prev..].to_string());
    if r.chance(10) {
        chunks.insert(0, String::new());
    }
    if r.chance(10) {
        chunks.push(String::new());
    }
    NScenario { chunks }
}

fn shrink(sc: &NScenario, class: &str) -> NScenario {
    let fails = |s: &NScenario| execute(s, true).findings.iter().any(|f| f.known.is_none() && f.class == class);
    let mut cur = sc.clone();
    loop {
        let mut progress = false;
        // merge chunks
        let mut i = 0;
        while i + 1 < cur.chunks.len() {
            let mut c = cur.clone();
            let nxt = c.chunks.remove(i + 1);
            c.chunks[i].push_str(&nxt);
            if fails(&c) {
                cur = c;
                progress = true;
            } else {
                i += 1;
            }
        }
        // drop characters
        for ci in 0..cur.chunks.len() {
            let idxs: Vec<usize> = cur.chunks[ci].char_indices().map(|(i, _)| i).collect();
            for &i in idxs.iter().rev() {
                if i >= cur.chunks[ci].len() {
                    continue;
                }
                let mut c = cur.clone();
                c.chunks[ci].remove(i);
                if fails(&c) {
                    cur = c;
                    progress = true;
                }
            }
        }
        // simplify characters
        for ci in 0..cur.chunks.len() {
            let chars: Vec<(usize, char)> = cur.chunks[ci].char_indices().collect();
            for (i, ch) in chars {
                if ch != 'a' && ch != '\n' {
                    let mut c = cur.clone();
                    let mut s = String::new();
                    s.push_str(&cur.chunks[ci][..i]);
                    s.push('a');
                    s.push_str(&cur.chunks[ci][i + ch.len_utf8()..]);
                    c.chunks[ci] = s;
                    if fails(&c) {
                        cur = c;
                        progress = true;
                        break;
                    }
                }
            }
        }
        if !progress {
            break;
        }
    }
    cur
}

pub fn replay_main(v: &Value, path: &str, quiet: bool) -> i32 {
    let sc: NScenario = match serde_json::from_value(v["scenario"].clone()) {
        Ok(s) => s,
        Err(e) => {
            eprintln!("harness error: {e}");
            return EXIT_HARNESS;
        }
    };
    crate::common::quiet_panics();
    let class = v["class"].as_str().unwrap_or("");
    let rep = execute(&sc, true);
    let mut hit = false;
    for f in &rep.findings {
        if !quiet {
            println!("finding: class={} known={:?} :: {}", f.class, f.known, f.detail);
        }
        if f.class == class && (f.known.is_none() || f.known.as_deref() == v["signature"].as_str()) {
            hit = true;
        }
    }
    if hit {
        println!("VIOLATION property=C19 replay={path} class={class}");
        EXIT_VIOLATION
    } else {
        println!("replay: class {class} did not reproduce");
        EXIT_OK
    }
}

pub fn check_main(tier: &str) -> i32 {
    let t0 = real_now_s();
    let vdir = verif_dir();
    let known = match load_known(&vdir) {
        Ok(k) => k,
        Err(e) => {
            eprintln!("harness error: {e}");
            return EXIT_HARNESS;
        }
    };
    let seed = seed_from_env();
    let count: u64 = std::env::var("VERIF_N_COUNT").ok().and_then(|s| s.parse().ok()).unwrap_or(if tier == "thorough" { 12_000_000 } else { 400_000 });
    let max_bytes = if tier == "thorough" { 40 } else { 28 };
    let w = ncpu() as u64;
    crate::common::quiet_panics();
    println!("engine N: property=C19 tier={tier} VERIF_SEED={seed} histories={count} threads={w}");
    struct Tot {
        queries: u64,
        probes: BTreeMap<&'static str, u64>,
        viol: BTreeMap<String, (u64, u64, NScenario, String)>, // class -> (count, first index, scenario, detail)
        known: BTreeMap<String, (u64, String)>,
        digests: Vec<u64>,
        loghash: u64,
        samples: Vec<Value>,
        nontrivial_multi_chunk: u64,
    }
    let tot = Mutex::new(Tot { queries: 0, probes: BTreeMap::new(), viol: BTreeMap::new(), known: BTreeMap::new(), digests: vec![], loghash: 0, samples: vec![], nontrivial_multi_chunk: 0 });
    std::thread::scope(|s| {
        for o in 0..w {
            let tot = &tot;
            s.spawn(move || {
                let mut queries = 0u64;
                let mut probes: BTreeMap<&'static str, u64> = BTreeMap::new();
                let mut viol: BTreeMap<String, (u64, u64, NScenario, String)> = BTreeMap::new();
                let mut knownm: BTreeMap<String, (u64, String)> = BTreeMap::new();
                let mut digests = vec![];
                let mut loghash = 0u64;
                let mut samples = vec![];
                let mut i = o;
                while i < count {
                    let mut r = Rng::new(mix(seed, ENGINE_TAG, i));
                    let sc = generate(&mut r, max_bytes);
                    // the full span sweep after *every* fragment for one history in four, after
                    // the last fragment for the others (offset queries always after every one)
                    let rep = execute(&sc, i % 4 == 0);
                    queries += rep.queries;
                    for (k, v) in &rep.probes {
                        *probes.entry(k).or_insert(0) += v;
                    }
                    loghash = loghash.wrapping_add(mix(i, rep.log_hash, 0));
                    if sc.chunks.len() >= 2 {
                        let mut h = fnv(b"");
                        for c in &sc.chunks {
                            h = fnv_add(h, c.as_bytes());
                            h = fnv_add(h, &[0xff]);
                        }
                        digests.push(h);
                    }
                    if samples.len() < 2 && sc.chunks.len() >= 3 && o == 0 {
                        samples.push(json!({"index": i, "chunks": sc.chunks, "queries": rep.queries}));
                    }
                    for f in rep.findings {
                        match f.known {
                            None => {
                                let e = viol.entry(f.class.clone()).or_insert((0, i, sc.clone(), f.detail.clone()));
                                e.0 += 1;
                            }
                            Some(id) => {
                                let e = knownm.entry(id).or_insert((0, f.detail.clone()));
                                e.0 += 1;
                            }
                        }
                    }
                    i += w;
                }
                let mut t = tot.lock().unwrap();
                t.queries += queries;
                for (k, v) in probes {
                    *t.probes.entry(k).or_insert(0) += v;
                }
                for (k, v) in viol {
                    match t.viol.get_mut(&k) {
                        Some(e) => {
                            e.0 += v.0;
                            if v.1 < e.1 {
                                e.1 = v.1;
                                e.2 = v.2;
                                e.3 = v.3;
                            }
                        }
                        None => {
                            t.viol.insert(k, v);
                        }
                    }
                }
                for (k, v) in knownm {
                    let e = t.known.entry(k).or_insert((0, v.1.clone()));
                    e.0 += v.0;
                }
                t.nontrivial_multi_chunk += digests.len() as u64;
                t.digests.extend(digests);
                t.loghash = t.loghash.wrapping_add(loghash);
                t.samples.extend(samples);
            });
        }
    });
    let mut t = tot.into_inner().unwrap();
    let mut exit = EXIT_OK;
    let mut nviol = 0;
    let mut lines = vec![];
    for (id, (cnt, what)) in &t.known {
        if is_listed(&known, "C19", id) {
            let e = known.iter().find(|k| k.id == *id && k.property == "C19").unwrap();
            lines.push(format!("KNOWN-FINDING: property=C19 id={id} occurrences={cnt} {} -- e.g. {what}", e.what));
        } else {
            nviol += cnt;
            exit = EXIT_VIOLATION;
            let replay = json!({"engine": "N", "property": "C19", "class": "span-lines", "signature": id, "seed": seed, "detail": what, "scenario": Value::Null});
            let _ = replay;
            lines.push(format!("VIOLATION property=C19 replay=(signature {id} not listed in known_findings.json) :: {what}"));
        }
    }
    for (class, (cnt, idx, sc, detail)) in &t.viol {
        nviol += cnt;
        exit = EXIT_VIOLATION;
        let small = shrink(sc, class);
        let rep = execute(&small, true);
        let d = rep.findings.iter().find(|f| f.known.is_none() && f.class == *class).map(|f| f.detail.clone()).unwrap_or(detail.clone());
        let replay = json!({"engine": "N", "property": "C19", "class": class, "seed": seed, "index": idx, "occurrences_in_run": cnt, "detail": d, "original": sc, "scenario": small});
        let path = write_replay(&vdir, &format!("C19-{}-{}.json", sanitize(class), seed), &replay).unwrap();
        let exe = std::env::current_exe().unwrap();
        let st = crate::driver_r::run_guarded(&exe, &["replay", path.to_str().unwrap(), "--quiet"], 60.0);
        if st != Some(1) {
            eprintln!("harness error: replay of {} did not reproduce (status {:?})", path.display(), st);
            return EXIT_HARNESS;
        }
        lines.push(format!("VIOLATION property=C19 replay={} class={class} occurrences={cnt} :: {d}", path.display()));
    }
    // ---- the nimbleparse binary on generated lexer / grammar pairs with differing token sets ----
    let np_cases: u64 = std::env::var("VERIF_NP_COUNT").ok().and_then(|s| s.parse().ok()).unwrap_or(if tier == "thorough" { 4000 } else { 240 });
    let mut np_stats: BTreeMap<&'static str, u64> = BTreeMap::new();
    match crate::np_n::binary() {
        None => {
            np_stats.insert("skipped_binary_not_built", 1);
            println!("engine N: nimbleparse binary not found (built by ./check C19): the whole-program part is skipped");
        }
        Some(bin) => {
            let scratch = scratch_base();
            let results: Mutex<Vec<(u64, String, String)>> = Mutex::new(vec![]);
            let stats: Mutex<BTreeMap<&'static str, u64>> = Mutex::new(BTreeMap::new());
            let failed: Mutex<Option<String>> = Mutex::new(None);
            std::thread::scope(|s| {
                for o in 0..w {
                    let (results, stats, failed, bin, scratch) = (&results, &stats, &failed, &bin, &scratch);
                    s.spawn(move || {
                        let mut k = o;
                        while k < np_cases {
                            let cs = mix(seed, 0x6e70, k);
                            let case = crate::np_n::generate(cs);
                            match crate::np_n::run_case(bin, &case, &scratch.join(format!("np{k}"))) {
                                Ok(fs) => {
                                    let mut st = stats.lock().unwrap();
                                    *st.entry("nimbleparse_runs").or_insert(0) += 1;
                                    if !case.missing_from_lexer.is_empty() {
                                        *st.entry("nimbleparse_runs_with_tokens_missing_from_the_lexer").or_insert(0) += 1;
                                    }
                                    if !case.missing_from_parser.is_empty() {
                                        *st.entry("nimbleparse_runs_with_tokens_missing_from_the_parser").or_insert(0) += 1;
                                    }
                                    drop(st);
                                    let mut r = results.lock().unwrap();
                                    for (c, d) in fs {
                                        r.push((cs, c, d));
                                    }
                                }
                                Err(e) => *failed.lock().unwrap() = Some(e),
                            }
                            let _ = std::fs::remove_dir_all(scratch.join(format!("np{k}")));
                            k += w;
                        }
                    });
                }
            });
            if let Some(e) = failed.into_inner().unwrap() {
                eprintln!("harness error: nimbleparse could not be run: {e}");
                return EXIT_HARNESS;
            }
            np_stats = stats.into_inner().unwrap();
            let mut by_class: BTreeMap<String, (u64, u64, String)> = BTreeMap::new();
            for (cs, c, d) in results.into_inner().unwrap() {
                let e = by_class.entry(c).or_insert((0, cs, d.clone()));
                e.0 += 1;
                if cs < e.1 {
                    *e = (e.0, cs, d);
                }
            }
            for (class, (cnt, cs, d)) in by_class {
                nviol += cnt;
                exit = EXIT_VIOLATION;
                let case = crate::np_n::generate(cs);
                let replay = crate::np_n::replay_json(&class, seed, cs, cnt, &d, &case);
                let path = write_replay(&vdir, &format!("C19-{}-{}.json", sanitize(&class), seed), &replay).unwrap();
                let exe = std::env::current_exe().unwrap();
                let st = crate::driver_r::run_guarded(&exe, &["replay", path.to_str().unwrap(), "--quiet"], 60.0);
                if st != Some(1) {
                    eprintln!("harness error: replay of {} did not reproduce (status {:?})", path.display(), st);
                    return EXIT_HARNESS;
                }
                lines.push(format!("VIOLATION property=C19 replay={} class={class} occurrences={cnt} :: {}", path.display(), d.chars().take(400).collect::<String>()));
            }
        }
    }
    t.digests.sort_unstable();
    t.digests.dedup();
    let wall = real_now_s() - t0;
    let mut extra: BTreeMap<String, Value> = BTreeMap::new();
    extra.insert("queries_checked".into(), json!(t.queries));
    extra.insert("runs_per_hour".into(), json!((count as f64 / wall * 3600.0) as u64));
    extra.insert("fragmentation_faults_fired".into(), json!(t.probes));
    extra.insert("event_log_hash".into(), json!(format!("{:016x}", t.loghash)));
    extra.insert("nimbleparse_binary".into(), json!(np_stats));
    extra.insert("real_components".into(), json!(["cfgrammar::newlinecache::NewlineCache (feed, byte_to_line_num, byte_to_line_byte, byte_to_line_num_and_col_num, span_line_bytes)", "lrlex::LRNonStreamingLexer::{line_col, span_lines_str}", "lrpar::LexParseError::pp (lexing errors with empty and non-empty spans, parse errors with repair lists)", "lrlex::LRNonStreamingLexerDef::lexer (its own cache feeding)", "lrpar::diagnostics::SpannedDiagnosticFormatter::{file_location_msg, underline_span_with_text, format_warning (multi-span), format_conflicts}", "the nimbleparse binary (child process per case; its stderr is read back)"]));
    extra.insert("stub_components".into(), json!(["none; there is no clock, thread or I/O in this path -- the simulated dimension is the fragmentation schedule and queries issued before end of stream"]));
    extra.insert("distinct_states".into(), json!({"count": t.digests.len(), "measure": "distinct chunk sequences with >= 2 chunks"}));
    let ev = Evidence {
        property: "C19".into(),
        tier: tier.into(),
        seed,
        evaluations: count,
        distinct_nontrivial: t.digests.len() as u64,
        rule: format!("history i of stream VERIF_SEED: text of <= {max_bytes} bytes over {{a b space LF CR CRLF 2/3/4-byte chars}} cut at PRNG-chosen character boundaries (empty chunks, CR|LF cuts, cut after newline); after every feed all character-boundary offsets are queried, all spans after the last feed (and after every feed for one history in four); on the final text: the real lexer's own cache, pretty-printed lexing and parse errors, single-span underlines, six multi-span (2-4 spans) warnings, and for one text in eight the conflict report of one of six ambiguous grammars laid out over several lines from the text's hash, and for another eighth the error for an array-valued `recoverer` entry of a %grmtools section laid out over several lines (parse, merge, RecoveryKind::try_from, format_error: reported at the opening bracket). Then {np_cases} generated lexer / grammar pairs with differing token sets go through the nimbleparse binary: every echoed `N| text` line of its report must be line N of the file the block names and every underline must sit under a token the block is about (half of the lexer files start with a %grmtools section, four in ten use target states, grammars re-name a declared token in %avoid_insert, and 15% of the cases are lexers rejected for a start state declared twice, with trailing blanks). One text in eight draws a grammar or a lexer that its front end rejects (duplicate declarations of every kind, a rule name used twice; LF and CRLF line ends): rendering each error must not panic, echo the right lines and underline the duplicated name. For one text in sixteen CTParserBuilder is given an action with an unknown `$` substitution and must locate it. Non-trivial = at least two chunks; distinct = distinct chunk sequence."),
        samples: t.samples.clone(),
        extra,
        assumptions: vec!["offsets and spans on character boundaries only (as the property states)".into(), "newline = LF; a lone CR is an ordinary character".into()],
        wall_s: wall,
        violations: nviol,
    };
    if let Err(e) = ev.write(&vdir) {
        eprintln!("harness error: evidence: {e}");
        return EXIT_HARNESS;
    }
    let _ = std::fs::remove_dir_all(scratch_base());
    println!("engine N: {count} histories, {} queries, {} distinct multi-chunk histories, {:.1}s, loghash {:016x}", t.queries, t.digests.len(), wall, t.loghash);
    for l in lines {
        println!("{l}");
    }
    exit
}
