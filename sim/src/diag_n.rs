//! Engine N, diagnostics part (C19's last clause: "error pretty-printing reports these
//! positions"): the multi-span formatter behind `format_error` / `format_warning` and the
//! conflict report, re-rendered from the naive line/column reference.
//!
//! The reference knows the layout the formatter documents (`<line>| <text>`, an underline from
//! the display column of the span's first byte, the message after the last underline, a `...`
//! gutter mark when the next reported row is not on the following line) and takes every number
//! in it - line numbers, line extents, columns - from the naive scan of the text.
use std::fmt;
use std::panic::{catch_unwind, AssertUnwindSafe};

use cfgrammar::yacc::{
    ast::{ASTWithValidityInfo, Symbol as ASym},
    parser::SpansKind,
    YaccGrammar, YaccKind, YaccOriginalActionKind,
};
use cfgrammar::{Span, Spanned, Symbol};
use lrlex::DefaultLexerTypes;
use lrpar::diagnostics::{DiagnosticFormatter, SpannedDiagnosticFormatter};
use unicode_width::UnicodeWidthStr;

use crate::rng::{fnv, Rng};

fn ref_line(p: &str, off: usize) -> usize {
    1 + p.as_bytes()[..off].iter().filter(|b| **b == b'\n').count()
}
fn ref_line_start(p: &str, off: usize) -> usize {
    p[..off].rfind('\n').map(|i| i + 1).unwrap_or(0)
}
fn ref_line_end(p: &str, from: usize) -> usize {
    p[from..].find('\n').map(|i| from + i).unwrap_or(p.len())
}
fn ref_col(p: &str, off: usize) -> usize {
    1 + p[ref_line_start(p, off)..off].chars().count()
}

/// LF-only text, span non-empty, not starting on a newline byte and not ending right after one.
pub fn span_ok(p: &str, s: usize, e: usize) -> bool {
    e > s && e <= p.len() && p.as_bytes()[e - 1] != b'\n' && p.as_bytes()[s] != b'\n'
}

/// The underlined excerpt for one span.
pub fn ref_underline(p: &str, s: usize, e: usize, prefix: &str, msg: &str, c: char) -> String {
    let mut exp = String::new();
    let mut pos = s;
    loop {
        let ls = ref_line_start(p, pos);
        let le = ref_line_end(p, pos);
        let ln = ref_line(p, pos);
        let seg_end = e.min(le);
        exp.push_str(&format!("{}| {}\n", ln, &p[ls..le]));
        let indent = ln.to_string().len() + 2 + UnicodeWidthStr::width(&p[ls..pos]);
        exp.push_str(prefix);
        exp.push_str(&" ".repeat(indent - prefix.len()));
        exp.push_str(&c.to_string().repeat(UnicodeWidthStr::width(&p[pos..seg_end]).max(1)));
        if e <= le {
            exp.push(' ');
            exp.push_str(msg);
            break;
        }
        exp.push('\n');
        pos = le + 1;
        if pos >= e {
            break;
        }
    }
    exp
}

struct Dup {
    spans: Vec<Span>,
}
impl fmt::Display for Dup {
    fn fmt(&self, f: &mut fmt::Formatter) -> fmt::Result {
        write!(f, "Duplicate thing")
    }
}
impl Spanned for Dup {
    fn spans(&self) -> &[Span] {
        &self.spans
    }
    fn spanskind(&self) -> SpansKind {
        SpansKind::DuplicationError
    }
}

fn ordinal(v: usize) -> String {
    let suffix = match ((11..=13).contains(&(v % 100)), v % 10) {
        (false, 1) => "st",
        (false, 2) => "nd",
        (false, 3) => "rd",
        _ => "th",
    };
    format!("{v}{suffix}")
}

pub struct DFinding {
    pub class: &'static str,
    pub detail: String,
}

/// `format_warning` for a duplication diagnostic with 2-4 spans in source order.
pub fn multi_span_checks(p: &str, bs: &[usize], out: &mut Vec<DFinding>, probes: &mut dyn FnMut(&'static str), queries: &mut u64) {
    if p.contains('\r') || p.is_empty() || p.len() > 96 {
        return;
    }
    let mut r = Rng::new(fnv(p.as_bytes()) ^ 0x5a5a);
    let path = std::path::PathBuf::from("t");
    let fmt = SpannedDiagnosticFormatter::new(p, &path);
    for _ in 0..6 {
        // 2..=4 spans at increasing positions
        let k = 2 + r.below(3) as usize;
        let mut cuts: Vec<usize> = (0..2 * k).map(|_| *r.pick(bs)).collect();
        cuts.sort();
        let spans: Vec<(usize, usize)> = cuts.chunks(2).map(|c| (c[0], c[1])).collect();
        if spans.iter().any(|(s, e)| !span_ok(p, *s, *e)) {
            continue;
        }
        // one row per source line at most is what duplicate declarations look like, but two
        // spans on one line are legal too; spans never overlap here
        *queries += 1;
        let mut exp = String::new();
        for (i, (s, e)) in spans.iter().enumerate() {
            let line = ref_line(p, *s);
            let next_line = spans.get(i + 1).map(|n| ref_line(p, n.0)).unwrap_or(line);
            let dots = if next_line > line + 1 { "..." } else { "" };
            if dots.is_empty() && next_line == line + 1 {
                probes("multi_span_rows_on_adjacent_lines");
            }
            if !dots.is_empty() {
                probes("multi_span_rows_with_skipped_lines");
            }
            let msg = if i == 0 { "Duplicate thing".to_string() } else { format!("{} occurrence", ordinal(i + 1)) };
            if i > 0 {
                exp.push('\n');
            }
            exp.push_str(&ref_underline(p, *s, *e, dots, &msg, '^'));
        }
        let d = Dup { spans: spans.iter().map(|(s, e)| Span::new(*s, *e)).collect() };
        match catch_unwind(AssertUnwindSafe(|| fmt.format_warning(d))) {
            Ok(got) if got == exp => {}
            Ok(got) => out.push(DFinding { class: "multi-span-format", detail: format!("format_warning for spans {:?} on {:?}: got {:?}, expected {:?}", spans, p, got, exp) }),
            Err(_) => out.push(DFinding { class: "multi-span-panic", detail: format!("format_warning for spans {:?} panicked on {:?}", spans, p) }),
        }
    }
}

// ---- conflict reports ------------------------------------------------------------------------

/// Ambiguous grammars as item lists; the layout (what separates two items) is drawn per check.
const CONFLICT_GRAMMARS: &[&[&str]] = &[
    &["E", ":", "E", "'+'", "E", "|", "E", "'*'", "E", "|", "'n'", ";"],
    &["S", ":", "'if'", "C", "'then'", "S", "|", "'if'", "C", "'then'", "S", "'else'", "S", "|", "'x'", ";", "C", ":", "'c'", ";"],
    &["S", ":", "A", "'x'", "|", "B", "'x'", ";", "A", ":", "'a'", ";", "B", ":", "'a'", ";"],
    &["S", ":", "S", "S", "|", "'a'", "|", ";"],
    &["L", ":", "L", "','", "L", "|", "I", ";", "I", ":", "'i'", "|", "I", "'.'", "'i'", "|", "I", "'.'", "I", ";"],
    &["P", ":", "Q", "Q", "'z'", ";", "Q", ":", "|", "'q'", "|", "Q", "'q'", ";"],
];

fn layout(r: &mut Rng, items: &[&str]) -> String {
    let start = items[0];
    let mut s = format!("%start {start}\n%%\n");
    let multi = r.chance(70);
    for (i, it) in items.iter().enumerate() {
        s.push_str(it);
        if i + 1 == items.len() {
            s.push('\n');
            break;
        }
        if *it == ";" {
            s.push('\n');
            continue;
        }
        let roll = r.below(100);
        if !multi || roll < 60 {
            s.push(' ');
        } else if roll < 75 {
            s.push('\n');
        } else if roll < 90 {
            s.push_str("\n    ");
        } else {
            s.push_str("   ");
        }
    }
    // push the grammar down so that line numbers cross 9 -> 10 now and then
    if r.chance(30) {
        let pad = r.below(12) as usize;
        s = s.replacen("%%\n", &format!("%%\n{}", "\n".repeat(pad)), 1);
    }
    s
}

pub fn conflict_checks(seed: u64, out: &mut Vec<DFinding>, probes: &mut dyn FnMut(&'static str), queries: &mut u64) {
    let mut r = Rng::new(seed ^ 0xc0f1);
    let items = *r.pick(CONFLICT_GRAMMARS);
    let src = layout(&mut r, items);
    let p = src.as_str();
    let kind = YaccKind::Original(YaccOriginalActionKind::GenericParseTree);
    let astv = ASTWithValidityInfo::new(kind, p);
    let Ok(grm) = YaccGrammar::<u32>::new_from_ast_with_validity_info(&astv) else { return };
    let Ok((sg, st)) = lrtable::from_yacc(&grm, lrtable::Minimiser::Pager) else { return };
    let Some(c) = st.conflicts() else { return };
    let ast = astv.ast();
    let path = std::path::PathBuf::from("t");
    let fmt = SpannedDiagnosticFormatter::new(p, &path);
    *queries += 1;
    probes("conflict_reports_formatted");
    // reference
    let sp = |s: Span| (s.start(), s.end());
    let loc = |msg: &str, s: Span| format!("{} at t:{}:{}", msg, ref_line(p, s.start()), ref_col(p, s.start()));
    let ul = |s: Span, msg: &str| ref_underline(p, s.start(), s.end(), "", msg, '^');
    let mut exp = String::new();
    for (tidx, p1, p2, _) in c.rr_conflicts() {
        let (tname, tspan) = match grm.token_name(*tidx) {
            Some(n) => (n, grm.token_span(*tidx)),
            None => ("$", grm.token_idx("$").and_then(|t| grm.token_span(t))),
        };
        let (r1, r2) = (grm.prod_to_rule(*p1), grm.prod_to_rule(*p2));
        exp.push_str(&loc(&format!("Reduce/Reduce conflict, can reduce '{}' or '{}' with lookahead '{}'", grm.rule_name_str(r1), grm.rule_name_str(r2), tname), grm.rule_name_span(r1)));
        exp.push('\n');
        exp.push_str(&ul(grm.rule_name_span(r1), "First reduce"));
        exp.push('\n');
        exp.push_str(&ul(grm.rule_name_span(r2), "Second reduce"));
        exp.push('\n');
        if let Some(ts) = tspan {
            exp.push_str(&ul(ts, "Lookahead"));
            exp.push('\n');
        }
        exp.push('\n');
        probes("reduce_reduce_conflicts_formatted");
    }
    for (tidx, pidx, _) in c.sr_conflicts() {
        let ridx = grm.prod_to_rule(*pidx);
        let rspan = grm.rule_name_span(ridx);
        let Some(tspan) = grm.token_span(*tidx) else { return };
        exp.push_str(&loc(&format!("Shift/Reduce conflict, can shift '{}' or reduce '{}'", grm.token_name(*tidx).unwrap_or("?"), grm.rule_name_str(ridx)), rspan));
        exp.push('\n');
        exp.push_str(&ul(tspan, "Shift"));
        exp.push('\n');
        exp.push_str(&ul(rspan, "Reduced rule"));
        exp.push('\n');
        // The production's symbols, found in the AST by rule name and symbol names (not by index).
        let want: Vec<String> = grm
            .prod(*pidx)
            .iter()
            .map(|s| match s {
                Symbol::Rule(r) => grm.rule_name_str(*r).to_string(),
                Symbol::Token(t) => grm.token_name(*t).unwrap_or("").to_string(),
            })
            .collect();
        let rname = grm.rule_name_str(ridx);
        let Some(rule) = ast.rules.get(rname) else { return };
        let cands: Vec<&cfgrammar::yacc::ast::Production> = rule
            .pidxs
            .iter()
            .map(|i| &ast.prods[*i])
            .filter(|pr| {
                pr.symbols.len() == want.len()
                    && pr.symbols.iter().zip(&want).all(|(a, w)| match a {
                        ASym::Rule(n, _) | ASym::Token(n, _) => n == w,
                    })
            })
            .collect();
        if cands.len() != 1 {
            // identical alternatives: which one is meant is not determined
            return;
        }
        let mut spans: Vec<(usize, usize)> = cands[0]
            .symbols
            .iter()
            .map(|a| match a {
                ASym::Rule(_, s) | ASym::Token(_, s) => sp(*s),
            })
            .collect();
        if spans.is_empty() {
            spans.push(sp(cands[0].prod_span));
        }
        spans.sort();
        let mut lines: Vec<usize> = spans.iter().map(|s| ref_line(p, s.0)).collect();
        lines.dedup();
        if lines.len() > 1 {
            probes("shift_reduce_productions_spanning_several_lines");
        }
        for (li, ln) in lines.iter().enumerate() {
            let on: Vec<(usize, usize)> = spans.iter().copied().filter(|s| ref_line(p, s.0) == *ln).collect();
            let ls = ref_line_start(p, on[0].0);
            let le = ref_line_end(p, on[0].0);
            exp.push_str(&format!("{}| {}\n", ln, &p[ls..le]));
            exp.push_str(&" ".repeat(ln.to_string().len() + 2 + UnicodeWidthStr::width(&p[ls..on[0].0])));
            for (i, s) in on.iter().enumerate() {
                exp.push_str(&"-".repeat(UnicodeWidthStr::width(&p[s.0..s.1]).max(1)));
                if let Some(n) = on.get(i + 1) {
                    exp.push_str(&" ".repeat(UnicodeWidthStr::width(&p[s.1..n.0])));
                }
            }
            exp.push(' ');
            if li + 1 == lines.len() {
                exp.push_str("Reduced productions");
            }
            exp.push('\n');
        }
        exp.push('\n');
        probes("shift_reduce_conflicts_formatted");
    }
    match catch_unwind(AssertUnwindSafe(|| fmt.format_conflicts::<DefaultLexerTypes<u32>>(&grm, ast, c, &sg, &st))) {
        Ok(got) if got == exp => {}
        Ok(got) => out.push(DFinding { class: "conflict-report-format", detail: format!("format_conflicts on {:?}: got {:?}, expected {:?}", p, got, exp) }),
        Err(_) => out.push(DFinding { class: "conflict-report-panic", detail: format!("format_conflicts panicked on {:?}", p) }),
    }
}

// ---- %grmtools header errors ------------------------------------------------------------------

/// A `%grmtools` section whose `recoverer` value is (wrongly) an array, laid out over a drawn
/// number of lines: the conversion error must be reported at the bracket that opens the array,
/// through the same steps nimbleparse and the builders take (parse, merge into a
/// `Header<Location>`, `RecoveryKind::try_from`, `format_error`).
pub fn header_checks(seed: u64, out: &mut Vec<DFinding>, probes: &mut dyn FnMut(&'static str), queries: &mut u64) {
    use cfgrammar::header::{GrmtoolsSectionParser, Header, HeaderError, HeaderValue};
    use cfgrammar::Location;
    let mut r = Rng::new(seed ^ 0x4ead);
    if r.chance(30) {
        // two different keys, each given twice: every reported error must be about one key, i.e.
        // all of its spans must cover the same text
        let sep = |r: &mut Rng| r.pick(&[" ", "\n", "\n    ", "\n\n  "]).to_string();
        let mut items = vec!["yacckind: Grmtools,", "recoverer: RecoveryKind::CPCTPlus,", "yacckind: Grmtools,", "recoverer: RecoveryKind::None,", "test_files: \"*.t\","];
        for i in (1..items.len()).rev() {
            let j = r.below(i as u64 + 1) as usize;
            items.swap(i, j);
        }
        let mut src = String::from("%grmtools {");
        for it in &items {
            src.push_str(&sep(&mut r));
            src.push_str(it);
        }
        src.push_str(&sep(&mut r));
        src.push_str("}\n%start S\n%%\nS: 'a';\n");
        let p = src.as_str();
        *queries += 1;
        match catch_unwind(AssertUnwindSafe(|| GrmtoolsSectionParser::new(p, true).parse())) {
            Err(_) => out.push(DFinding { class: "header-error-panic", detail: format!("parsing the section of {:?} panicked", p) }),
            Ok(Ok(_)) => out.push(DFinding { class: "header-error-location", detail: format!("a section with two keys given twice was accepted: {:?}", p) }),
            Ok(Err(errs)) => {
                probes("header_duplicate_errors_checked");
                let mut seen: Vec<String> = vec![];
                for e in &errs {
                    let texts: Vec<&str> = e.locations.iter().map(|s| &p[s.start()..s.end()]).collect();
                    if texts.windows(2).any(|w| w[0] != w[1]) {
                        out.push(DFinding { class: "header-error-location", detail: format!("one error ({e}) points at different keys {:?}; section {:?}", texts, p) });
                    }
                    if let Some(t) = texts.first() {
                        seen.push(t.to_string());
                    }
                }
                for k in ["yacckind", "recoverer"] {
                    if !seen.iter().any(|t| t == k) {
                        out.push(DFinding { class: "header-error-location", detail: format!("the duplicated key {k:?} is not reported (reported: {:?}); section {:?}", seen, p) });
                    }
                }
            }
        }
        return;
    }
    let mut ws = |r: &mut Rng| match r.below(5) {
        0 => " ".to_string(),
        1 => "\n".to_string(),
        2 => "\n    ".to_string(),
        3 => "\n\n  ".to_string(),
        _ => "  ".to_string(),
    };
    let mut src = String::new();
    for _ in 0..r.below(4) {
        src.push('\n');
    }
    src.push_str("%grmtools {");
    let first = r.chance(50);
    if !first {
        src.push_str(&ws(&mut r));
        src.push_str("yacckind: Grmtools,");
    }
    src.push_str(&ws(&mut r));
    src.push_str("recoverer:");
    src.push_str(&ws(&mut r));
    src.push('[');
    let n = 1 + r.below(3);
    for i in 0..n {
        src.push_str(&ws(&mut r));
        src.push_str(&format!("\"v{i}\""));
        if i + 1 < n || r.chance(50) {
            src.push(',');
        }
    }
    src.push_str(&ws(&mut r));
    src.push_str("],");
    if first {
        src.push_str(&ws(&mut r));
        src.push_str("yacckind: Grmtools,");
    }
    src.push_str(&ws(&mut r));
    src.push_str("}\n%start S\n%%\nS: 'a';\n");
    let p = src.as_str();
    *queries += 1;
    let run = || -> Result<(usize, String, String), String> {
        let (parsed, _) = GrmtoolsSectionParser::new(p, true).parse().map_err(|_| "header rejected".to_string())?;
        let mut h: Header<Location> = Header::new();
        h.merge_from(parsed).map_err(|_| "merge failed".to_string())?;
        let HeaderValue(_, v) = h.get("recoverer").ok_or("no recoverer entry")?;
        let e = match lrpar::RecoveryKind::try_from(v) {
            Err(e) => e,
            Ok(_) => return Err("an array was accepted as a RecoveryKind".into()),
        };
        let spans: Vec<Span> = e
            .locations
            .iter()
            .map(|l| match l {
                Location::Span(s) => Ok(*s),
                _ => Err("location without a span".to_string()),
            })
            .collect::<Result<_, _>>()?;
        let first = *spans.first().ok_or("no location")?;
        let spanned: HeaderError<Span> = HeaderError { kind: e.kind, locations: spans };
        let msg = spanned.to_string();
        let path = std::path::PathBuf::from("t");
        let fmt = SpannedDiagnosticFormatter::new(p, &path);
        let rendered = fmt.format_error(spanned).to_string();
        Ok((first.start(), msg, rendered))
    };
    match catch_unwind(AssertUnwindSafe(run)) {
        Ok(Ok((at, msg, rendered))) => {
            probes("header_errors_formatted");
            let open = p.find('[').unwrap();
            let exp = ref_underline(p, open, open + 1, "", &msg, '^');
            if at != open || rendered != exp {
                out.push(DFinding { class: "header-error-location", detail: format!("`recoverer: [..]` in {:?}: error located at byte {at} (line {}), the array opens at byte {open} (line {}); rendered {:?}, expected {:?}", p, ref_line(p, at.min(p.len())), ref_line(p, open), rendered, exp) });
            }
        }
        Ok(Err(_)) => {}
        Err(_) => out.push(DFinding { class: "header-error-panic", detail: format!("reporting the bad `recoverer` value of {:?} panicked", p) }),
    }
}

// ---- position of an error inside an action ------------------------------------------------------

/// `CTParserBuilder` rejects an action that contains a `$` followed by text it does not know
/// ("Unknown text following '$'") and says where: `Error at <path>:<line>:<col>`. The position
/// must be that of the character after the offending `$`. Returns Some(true) if it is, Some(false)
/// with a finding pushed otherwise; the known off-by-leading-blanks signature is reported through
/// `known`.
pub fn action_error_checks(seed: u64, dir: &std::path::Path, out: &mut Vec<DFinding>, known: &mut Vec<(&'static str, String)>, probes: &mut dyn FnMut(&'static str), queries: &mut u64) {
    use lrpar::CTParserBuilder;
    let mut r = Rng::new(seed ^ 0xac71);
    let mut src = String::from("%grmtools{yacckind: Grmtools}\n");
    for _ in 0..r.below(4) {
        src.push('\n');
    }
    src.push_str("%start S\n%%\n");
    for _ in 0..r.below(3) {
        src.push('\n');
    }
    src.push_str("S -> u64:");
    src.push_str(*r.pick(&[" ", "\n    ", "  "]));
    src.push_str("'a' S");
    src.push_str(*r.pick(&[" ", "\n      "]));
    src.push('{');
    let lead = *r.pick(&["", " ", "  ", "\n        ", " \t"]);
    src.push_str(lead);
    // a valid substitution or two first, possibly on a line of their own, then the bad one
    let pre = *r.pick(&["", "$2 + ", "let _x = $span;\n        ", "é + $2 * "]);
    src.push_str(pre);
    let bad_at = src.len();
    src.push_str("$oops");
    src.push_str(*r.pick(&[" }", "}", "\n    }"]));
    src.push_str("\n  | 'b' { 0 }\n  ;\n");
    let p = src.as_str();
    let _ = std::fs::create_dir_all(dir);
    // the builders refuse a second build to the same path in one process: every call gets its own
    static N: std::sync::atomic::AtomicU64 = std::sync::atomic::AtomicU64::new(0);
    let k = N.fetch_add(1, std::sync::atomic::Ordering::SeqCst);
    let gp = dir.join(format!("act{k}.y"));
    let op = dir.join(format!("act{k}.y.rs"));
    if std::fs::write(&gp, p).is_err() {
        return;
    }
    *queries += 1;
    let res = catch_unwind(AssertUnwindSafe(|| {
        CTParserBuilder::<DefaultLexerTypes<u32>>::new().grammar_path(&gp).output_path(&op).show_warnings(false).build().map(|_| ()).map_err(|e| e.to_string())
    }));
    let _ = std::fs::remove_file(&gp);
    let _ = std::fs::remove_file(&op);
    let msg = match res {
        Ok(Err(m)) => m,
        Ok(Ok(())) => {
            out.push(DFinding { class: "action-error-location", detail: format!("an action with `$oops` was accepted: {:?}", p) });
            return;
        }
        Err(_) => {
            out.push(DFinding { class: "action-error-panic", detail: format!("CTParserBuilder panicked on {:?}", p) });
            return;
        }
    };
    probes("action_errors_located");
    // "Error at <path>:<line>:<col>"
    let want_off = bad_at + 1;
    let want = (ref_line(p, want_off), ref_col(p, want_off));
    let got = msg.lines().find_map(|l| {
        let rest = l.trim().strip_prefix("Error at ")?;
        let mut it = rest.rsplitn(3, ':');
        let col: usize = it.next()?.trim().parse().ok()?;
        let line: usize = it.next()?.trim().parse().ok()?;
        Some((line, col))
    });
    if got == Some(want) {
        return;
    }
    // known signature: the position is too far left by exactly the whitespace that follows the
    // opening brace (the recorded action span starts at the brace, the action text is trimmed)
    let shifted = bad_at + 1 - lead.len();
    if !lead.is_empty() && got == Some((ref_line(p, shifted), ref_col(p, shifted))) {
        known.push(("action-span-ignores-blanks-after-brace", format!("`$oops` at {}:{} reported at {:?} ({} blank(s) after the brace); grammar {:?}", want.0, want.1, got, lead.len(), p)));
        return;
    }
    out.push(DFinding { class: "action-error-location", detail: format!("the character after the bad `$` is at line {} column {}, the error says {:?}; message {:?}; grammar {:?}", want.0, want.1, got, msg, p) });
}

// ---- errors of the grammar and lexer front ends, rendered -----------------------------------------

/// Every `N| text` line of a rendered diagnostic must be line N of the source (CR of a CRLF end
/// aside); returns the underlined pieces of text, or a description of the first mismatch.
fn echoed_lines(p: &str, rendered: &str) -> Result<Vec<String>, String> {
    let src: Vec<&str> = p.split('\n').map(|l| l.trim_end_matches('\r')).collect();
    let lines: Vec<&str> = rendered.lines().collect();
    let mut under = vec![];
    let mut i = 0;
    while i < lines.len() {
        if let Some((num, rest)) = lines[i].split_once("| ") {
            let indent = num.chars().take_while(|c| *c == ' ').count();
            let digits = &num[indent..];
            if !digits.is_empty() && digits.chars().all(|c| c.is_ascii_digit()) {
                let n: usize = digits.parse().unwrap_or(0);
                if n == 0 || src.get(n - 1).copied() != Some(rest.trim_end_matches('\r')) {
                    return Err(format!("echoed line {n} is {:?}, line {n} of the source is {:?}", rest, src.get(n.wrapping_sub(1))));
                }
                if let Some(ul) = lines.get(i + 1) {
                    let ul = ul.replacen("...", "   ", 1);
                    let lead = ul.chars().take_while(|c| *c == ' ').count();
                    let marks = ul.chars().skip(lead).take_while(|c| *c == '^' || *c == '-').count();
                    if marks > 0 {
                        let col = lead.saturating_sub(indent + digits.len() + 2);
                        under.push(rest.chars().skip(col).take(marks).collect());
                        i += 1;
                    }
                }
            }
        }
        i += 1;
    }
    Ok(under)
}

/// Grammars and lexers that their front ends reject, laid out with drawn padding and (for the
/// lexer) drawn line ends: rendering each error must not panic, must echo the right lines, and
/// for duplicate declarations must underline the duplicated name each time.
pub fn front_end_error_checks(seed: u64, out: &mut Vec<DFinding>, probes: &mut dyn FnMut(&'static str), queries: &mut u64) {
    use cfgrammar::yacc::ast::ASTWithValidityInfo;
    let mut r = Rng::new(seed ^ 0xfe11);
    let pad = |r: &mut Rng| "\n".repeat(r.below(4) as usize);
    let path = std::path::PathBuf::from("t");
    if r.chance(50) {
        // ---- grammar: (declarations, expected underlined text for every span, if it is a duplicate)
        const BAD: &[(&str, Option<&str>)] = &[
            ("%start S\n%start T\n", Some("")),
            ("%start S\n%expect 1\n%expect 2\n", Some("")),
            ("%start S\n%expect-rr 1\n%expect-rr 2\n", Some("")),
            ("%start S\n%avoid_insert 'a'\n%avoid_insert 'a'\n", Some("a")),
            ("%start S\n%epp a \"x\"\n%epp a \"y\"\n", Some("a")),
            ("%start S\n%left 'a'\n%right 'a'\n", Some("a")),
            ("%start S\n%implicit_tokens W W\n", Some("W")),
            ("%start Nope\n", None),
            ("%start S\n%token\n", None),
            ("%start S\n%actiontype u8\n%actiontype u16\n", Some("")),
        ];
        let (decls, dup) = *r.pick(BAD);
        let mut src = pad(&mut r);
        for l in decls.lines() {
            src.push_str(l);
            src.push('\n');
            src.push_str(&pad(&mut r));
        }
        src.push_str("%%\nS: 'a' T;\nT: 'b';\n");
        let p = src.as_str();
        *queries += 1;
        let kind = if decls.contains("%implicit_tokens") { YaccKind::Eco } else { YaccKind::Original(YaccOriginalActionKind::GenericParseTree) };
        let astv = ASTWithValidityInfo::new(kind, p);
        let errs = match YaccGrammar::<u32>::new_from_ast_with_validity_info(&astv) {
            Err(e) => e,
            Ok(_) => return,
        };
        let fmt = SpannedDiagnosticFormatter::new(p, &path);
        for e in errs {
            probes("grammar_errors_rendered");
            let what = e.to_string();
            match catch_unwind(AssertUnwindSafe(|| fmt.format_error(e).to_string())) {
                Err(_) => out.push(DFinding { class: "grammar-error-render-panic", detail: format!("rendering the error {what:?} of {:?} panicked", p) }),
                Ok(rendered) => match echoed_lines(p, &rendered) {
                    Err(m) => out.push(DFinding { class: "grammar-error-render", detail: format!("error {what:?}: {m}; rendered {:?}; grammar {:?}", rendered, p) }),
                    Ok(under) => {
                        if let Some(name) = dup {
                            if !name.is_empty() && what.to_lowercase().contains("duplicat") && under.iter().any(|u| u.trim_matches(|c| c == '\'' || c == '"') != name) {
                                out.push(DFinding { class: "grammar-error-render", detail: format!("error {what:?}: underlined {:?}, every occurrence of {name:?} was expected; rendered {:?}; grammar {:?}", under, rendered, p) });
                            }
                        }
                    }
                },
            }
        }
    } else {
        // ---- lexer: a rule name used twice, LF or CRLF line ends, with or without a %grmtools section
        let nl = if r.chance(50) { "\r\n" } else { "\n" };
        let mut src = String::new();
        if r.chance(50) {
            src.push_str("%grmtools{lexerkind: LRNonStreamingLexer}");
            src.push_str(nl);
        }
        for _ in 0..r.below(3) {
            src.push_str(nl);
        }
        src.push_str("%%");
        src.push_str(nl);
        let name = *r.pick(&["INT", "Größe", "K"]);
        let n = 2 + r.below(4) as usize;
        let (a, b) = (r.below(n as u64) as usize, r.below(n as u64) as usize);
        for i in 0..n {
            for _ in 0..r.below(3) {
                src.push_str(nl);
            }
            let nm = if i == a || i == b { name.to_string() } else { format!("T{i}") };
            src.push_str(&format!("r{i}x{} \"{nm}\"", " ".repeat(r.below(4) as usize)));
            src.push_str(nl);
        }
        if a == b {
            return;
        }
        let p = src.as_str();
        *queries += 1;
        let errs = match lrlex::LRNonStreamingLexerDef::<DefaultLexerTypes<u32>>::new_with_options(p, lrlex::DEFAULT_LEX_FLAGS) {
            Err(e) => e,
            Ok(_) => {
                out.push(DFinding { class: "lexer-error-render", detail: format!("a lexer with the rule name {name:?} used twice was accepted: {:?}", p) });
                return;
            }
        };
        let fmt = SpannedDiagnosticFormatter::new(p, &path);
        for e in errs {
            probes(if nl == "\n" { "lexer_errors_rendered" } else { "lexer_errors_rendered_crlf" });
            let what = e.to_string();
            match catch_unwind(AssertUnwindSafe(|| fmt.format_error(e).to_string())) {
                Err(_) => out.push(DFinding { class: "lexer-error-render-panic", detail: format!("rendering the error {what:?} of {:?} panicked", p) }),
                Ok(rendered) => match echoed_lines(p, &rendered) {
                    Err(m) => out.push(DFinding { class: "lexer-error-render", detail: format!("error {what:?}: {m}; rendered {:?}; lexer {:?}", rendered, p) }),
                    Ok(under) => {
                        if under.len() != 2 || under.iter().any(|u| u != name) {
                            out.push(DFinding { class: "lexer-error-render", detail: format!("error {what:?}: underlined {:?}, the two occurrences of {name:?} were expected; rendered {:?}; lexer {:?}", under, rendered, p) });
                        }
                    }
                },
            }
        }
    }
}
