//! Driver for engine R: worker processes (address-space limit + watchdog), aggregation,
//! minimisation, replay files, evidence.
use std::collections::BTreeMap;
use std::io::Write;
use std::path::{Path, PathBuf};
use std::process::{Child, Command, Stdio};
use std::sync::atomic::{AtomicU64, Ordering};
use std::sync::Arc;

use serde::{Deserialize, Serialize};
use serde_json::{json, Value};

use crate::common::*;
use crate::engine_r::{execute, gen_base, gen_fault, shrink, ExecOpts, Finding, GenParams, Probes, RScenario, RunReport};
use crate::rng::{mix, Rng};
use crate::seams::real_now_s;

const ENGINE_TAG: u64 = 0x52; // 'R'
const PROPS: [&str; 4] = ["C05", "C06", "C07", "C08"];
const SCENARIO_WALL_LIMIT_S: f64 = 120.0;
const WORKER_AS_LIMIT: u64 = 6 << 30;

pub fn tier_count(tier: &str) -> u64 {
    if let Ok(n) = std::env::var("VERIF_R_COUNT") {
        if let Ok(n) = n.parse() {
            return n;
        }
    }
    match tier {
        "thorough" => 600_000,
        _ => 16_000,
    }
}
fn gen_params(tier: &str) -> GenParams {
    GenParams { max_tokens: if tier == "thorough" { 40 } else { 24 } }
}

#[derive(Serialize, Deserialize, Default)]
struct VRec {
    index: u64,
    variant: String,
    finding: Option<Finding>,
    scenario: Option<RScenario>,
}

#[derive(Serialize, Deserialize, Default)]
struct WorkerSummary {
    evaluations: u64,
    fault_free_runs: u64,
    fault_runs: u64,
    gen_discarded: u64,
    exec_discarded: u64,
    p1_runs: u64,
    p2_runs: u64,
    sim_time_ns: u64,
    clock_reads: u64,
    probes: BTreeMap<String, u64>,
    policy_runs: BTreeMap<String, u64>,
    viol_counts: BTreeMap<String, u64>,  // "prop|class"
    viol_samples: BTreeMap<String, Vec<VRec>>, // first few per key
    known_counts: BTreeMap<String, u64>, // "prop|id|class"
    known_samples: BTreeMap<String, VRec>,
    samples: Vec<Value>,
    loghash: u64,
    last_index: u64,
}

struct Agg {
    s: WorkerSummary,
    exercised: [Vec<u64>; 4],
    states: Vec<u64>,
    perlog: Option<std::fs::File>,
}

impl Agg {
    fn absorb(&mut self, index: u64, variant: &str, sc: &RScenario, rep: RunReport) {
        if let Some(_d) = &rep.discarded {
            self.s.exec_discarded += 1;
            return;
        }
        self.s.evaluations += 1;
        if variant == "base" {
            self.s.fault_free_runs += 1;
        } else {
            self.s.fault_runs += 1;
        }
        *self.s.policy_runs.entry(sc.policy_class.clone()).or_insert(0) += 1;
        if rep.p1 {
            self.s.p1_runs += 1;
        } else {
            self.s.p2_runs += 1;
        }
        self.s.sim_time_ns += rep.elapsed_ns;
        self.s.clock_reads += rep.clock_reads;
        let mut p = Probes::default();
        p.merge(&rep.probes);
        for (k, v) in p.0 {
            *self.s.probes.entry(k.to_string()).or_insert(0) += v;
        }
        for (i, e) in rep.exercised.iter().enumerate() {
            if *e {
                self.exercised[i].push(rep.scenario_digest);
            }
        }
        self.states.extend(rep.states.iter());
        self.s.loghash = self.s.loghash.wrapping_add(mix(index, rep.log_hash, if variant == "base" { 1 } else { 2 }));
        if let Some(f) = &mut self.perlog {
            let _ = writeln!(f, "{index} {variant} {:016x}", rep.log_hash);
        }
        if self.s.samples.len() < 3 && rep.n_errors > 0 && (variant != "base" || self.s.samples.is_empty()) {
            self.s.samples.push(json!({"index": index, "variant": variant, "errors_reported": rep.n_errors, "clock_reads": rep.clock_reads, "simulated_elapsed_ns": rep.elapsed_ns, "population": if rep.p1 {"P1"} else {"P2"}, "scenario": sc}));
        }
        for f in rep.findings {
            match &f.known {
                None => {
                    let key = format!("{}|{}", f.property, f.class);
                    *self.s.viol_counts.entry(key.clone()).or_insert(0) += 1;
                    let v = self.s.viol_samples.entry(key).or_default();
                    if v.len() < 2 {
                        v.push(VRec { index, variant: variant.into(), finding: Some(f), scenario: Some(sc.clone()) });
                    }
                }
                Some(id) => {
                    let key = format!("{}|{}|{}", f.property, id, f.class);
                    *self.s.known_counts.entry(key.clone()).or_insert(0) += 1;
                    self.s.known_samples.entry(key).or_insert_with(|| VRec { index, variant: variant.into(), finding: Some(f.clone()), scenario: Some(sc.clone()) });
                }
            }
        }
    }
}

/// Everything index `i` of stream `seed` does: a fault-free run and, for inputs with a parse
/// error, possibly a time-fault variant derived from it.
fn run_index(seed: u64, i: u64, gp: &GenParams, opts: &ExecOpts, agg: &mut Agg, emit: Option<&Path>) {
    let mut r = Rng::new(mix(seed, ENGINE_TAG, i));
    let Some(base) = gen_base(&mut r, gp) else {
        agg.s.gen_discarded += 1;
        return;
    };
    let emit_sc = |sc: &RScenario, variant: &str| {
        if let Some(p) = emit {
            let _ = std::fs::write(p, serde_json::to_string(&json!({"variant": variant, "scenario": sc})).unwrap());
        }
    };
    emit_sc(&base, "base");
    let rep = execute(&base, opts);
    let (disc, nerr, reads) = (rep.discarded.is_some(), rep.n_errors, rep.clock_reads);
    agg.absorb(i, "base", &base, rep);
    if !disc && nerr > 0 && reads > 0 && r.chance(60) {
        let fsc = gen_fault(&mut r, &base, reads);
        emit_sc(&fsc, "fault");
        let frep = execute(&fsc, opts);
        agg.absorb(i, "fault", &fsc, frep);
    }
    // A lexing fault on the same input, from a stream of its own (so that adding this variant did
    // not change what every other index does): the lexer reports an error after the whole input
    // (half of the time: if the input was a sentence, everything before the error parses) or in
    // place of a random lexeme, and stops there or carries on.
    let mut r2 = Rng::new(mix(seed, ENGINE_TAG ^ 0x1e8_e44, i));
    if !disc && r2.chance(12) {
        let mut lsc = base.clone();
        let n = lsc.tokens.len() as u64;
        let k = if r2.chance(50) { n } else { r2.below(n + 1) };
        lsc.lex_error = Some((k as usize, r2.chance(40)));
        emit_sc(&lsc, "lexerr");
        let lrep = execute(&lsc, opts);
        agg.absorb(i, "lexerr", &lsc, lrep);
    }
}

fn write_u64s(p: &Path, v: &[u64]) {
    let mut bytes = Vec::with_capacity(v.len() * 8);
    for x in v {
        bytes.extend_from_slice(&x.to_le_bytes());
    }
    let _ = std::fs::write(p, bytes);
}
fn read_u64s(p: &Path) -> Vec<u64> {
    let b = std::fs::read(p).unwrap_or_default();
    b.chunks_exact(8).map(|c| u64::from_le_bytes(c.try_into().unwrap())).collect()
}

pub fn worker_main(args: &[String]) -> i32 {
    let get = |k: &str| -> String {
        args.iter().position(|a| a == k).and_then(|p| args.get(p + 1)).cloned().unwrap_or_default()
    };
    let seed: u64 = get("--seed").parse().unwrap();
    let count: u64 = get("--count").parse().unwrap();
    let stride: u64 = get("--stride").parse().unwrap();
    let from: u64 = get("--from").parse().unwrap();
    let tier = get("--tier");
    let out = PathBuf::from(get("--out"));
    unsafe {
        let lim = libc::rlimit { rlim_cur: WORKER_AS_LIMIT, rlim_max: WORKER_AS_LIMIT };
        libc::setrlimit(libc::RLIMIT_AS, &lim);
    }
    // quiet panics from simulated processes (they are caught and judged)
    crate::common::quiet_panics();
    let cur = Arc::new(AtomicU64::new(u64::MAX));
    let started = Arc::new(AtomicU64::new(0));
    {
        let cur = cur.clone();
        let started = started.clone();
        let journal = out.with_extension("journal");
        std::thread::spawn(move || loop {
            std::thread::sleep(std::time::Duration::from_millis(200));
            let c = cur.load(Ordering::SeqCst);
            if c == u64::MAX {
                continue;
            }
            let st = f64::from_bits(started.load(Ordering::SeqCst));
            if real_now_s() - st > SCENARIO_WALL_LIMIT_S {
                let _ = std::fs::write(&journal, format!("STALL {c}"));
                unsafe { libc::_exit(3) };
            }
        });
    }
    let gp = gen_params(&tier);
    let opts = ExecOpts::default();
    let perlog = if std::env::var("VERIF_PERLOG").is_ok() { std::fs::File::create(out.with_extension("perlog")).ok() } else { None };
    let mut agg = Agg { s: WorkerSummary::default(), exercised: Default::default(), states: vec![], perlog };
    let journal = out.with_extension("journal");
    let mut i = from;
    while i < count {
        let _ = std::fs::write(&journal, format!("RUN {i}"));
        started.store(real_now_s().to_bits(), Ordering::SeqCst);
        cur.store(i, Ordering::SeqCst);
        run_index(seed, i, &gp, &opts, &mut agg, None);
        cur.store(u64::MAX, Ordering::SeqCst);
        agg.s.last_index = i;
        i += stride;
    }
    for (k, p) in PROPS.iter().enumerate() {
        write_u64s(&out.with_extension(format!("ex{p}")), &agg.exercised[k]);
    }
    write_u64s(&out.with_extension("states"), &agg.states);
    std::fs::write(&out, serde_json::to_string(&agg.s).unwrap()).expect("write worker summary");
    let _ = std::fs::write(&journal, "DONE");
    0
}

/// Run one index in this process (used for isolation re-runs and debugging).
pub fn one_main(args: &[String]) -> i32 {
    let get = |k: &str| -> String {
        args.iter().position(|a| a == k).and_then(|p| args.get(p + 1)).cloned().unwrap_or_default()
    };
    let seed: u64 = get("--seed").parse().unwrap();
    let index: u64 = get("--index").parse().unwrap();
    let tier = get("--tier");
    unsafe {
        let lim = libc::rlimit { rlim_cur: WORKER_AS_LIMIT, rlim_max: WORKER_AS_LIMIT };
        libc::setrlimit(libc::RLIMIT_AS, &lim);
    }
    let verbose = args.iter().any(|a| a == "-v");
    if !verbose {
        crate::common::quiet_panics();
    }
    let mut agg = Agg { s: WorkerSummary::default(), exercised: Default::default(), states: vec![], perlog: None };
    let emit = get("--emit");
    let emit_p = if emit.is_empty() { None } else { Some(PathBuf::from(emit)) };
    run_index(seed, index, &gen_params(&tier), &ExecOpts::default(), &mut agg, emit_p.as_deref());
    if verbose {
        println!("{}", serde_json::to_string_pretty(&agg.s).unwrap());
    }
    0
}

struct Slot {
    child: Child,
    out: PathBuf,
    offset: u64,
    from: u64,
}

fn spawn_worker(exe: &Path, seed: u64, count: u64, stride: u64, from: u64, tier: &str, out: &Path) -> Child {
    Command::new(exe)
        .args(["r-worker", "--seed", &seed.to_string(), "--count", &count.to_string(), "--stride", &stride.to_string(), "--from", &from.to_string(), "--tier", tier, "--out"])
        .arg(out)
        .stdin(Stdio::null())
        .spawn()
        .expect("spawn worker")
}

fn merge(into: &mut WorkerSummary, s: WorkerSummary) {
    into.evaluations += s.evaluations;
    into.fault_free_runs += s.fault_free_runs;
    into.fault_runs += s.fault_runs;
    into.gen_discarded += s.gen_discarded;
    into.exec_discarded += s.exec_discarded;
    into.p1_runs += s.p1_runs;
    into.p2_runs += s.p2_runs;
    into.sim_time_ns += s.sim_time_ns;
    into.clock_reads += s.clock_reads;
    into.loghash = into.loghash.wrapping_add(s.loghash);
    for (k, v) in s.probes {
        *into.probes.entry(k).or_insert(0) += v;
    }
    for (k, v) in s.policy_runs {
        *into.policy_runs.entry(k).or_insert(0) += v;
    }
    for (k, v) in s.viol_counts {
        *into.viol_counts.entry(k).or_insert(0) += v;
    }
    for (k, v) in s.viol_samples {
        let e = into.viol_samples.entry(k).or_default();
        e.extend(v);
        e.sort_by_key(|x| (x.index, x.variant.clone()));
        e.truncate(2);
    }
    for (k, v) in s.known_counts {
        *into.known_counts.entry(k).or_insert(0) += v;
    }
    for (k, v) in s.known_samples {
        let replace = match into.known_samples.get(&k) {
            Some(old) => v.index < old.index,
            None => true,
        };
        if replace {
            into.known_samples.insert(k, v);
        }
    }
    for x in s.samples {
        if into.samples.len() < 4 {
            into.samples.push(x);
        }
    }
}

fn distinct(mut v: Vec<u64>) -> u64 {
    v.sort_unstable();
    v.dedup();
    v.len() as u64
}

/// `sim R <property> <tier>`
pub fn check_main(prop: &str, tier: &str) -> i32 {
    let t0 = real_now_s();
    let vdir = verif_dir();
    let known = match load_known(&vdir) {
        Ok(k) => k,
        Err(e) => {
            eprintln!("harness error: {e}");
            return EXIT_HARNESS;
        }
    };
    let seed = seed_from_env();
    let count = tier_count(tier);
    let exe = std::env::current_exe().unwrap();
    let scratch = scratch_base();
    let w = ncpu() as u64;
    println!("engine R: property={prop} tier={tier} VERIF_SEED={seed} indices={count} workers={w}");
    let mut slots: Vec<Slot> = (0..w)
        .map(|o| {
            let out = scratch.join(format!("w{o}.json"));
            Slot { child: spawn_worker(&exe, seed, count, w, o, tier, &out), out, offset: o, from: o }
        })
        .collect();
    let mut total = WorkerSummary::default();
    let mut exercised: [Vec<u64>; 4] = Default::default();
    let mut states: Vec<u64> = vec![];
    let mut no_return: Vec<(u64, String, Value)> = vec![];
    let mut worker_restarts = 0u64;
    let mut harness_err: Option<String> = None;
    let mut part = 0;
    while !slots.is_empty() {
        let mut i = 0;
        let mut progressed = false;
        while i < slots.len() {
            match slots[i].child.try_wait() {
                Ok(Some(status)) => {
                    progressed = true;
                    let mut sl = slots.swap_remove(i);
                    let journal = std::fs::read_to_string(sl.out.with_extension("journal")).unwrap_or_default();
                    if status.success() && journal == "DONE" {
                        match std::fs::read_to_string(&sl.out).ok().and_then(|s| serde_json::from_str::<WorkerSummary>(&s).ok()) {
                            Some(s) => {
                                merge(&mut total, s);
                                for (k, p) in PROPS.iter().enumerate() {
                                    exercised[k].extend(read_u64s(&sl.out.with_extension(format!("ex{p}"))));
                                }
                                states.extend(read_u64s(&sl.out.with_extension("states")));
                            }
                            None => harness_err = Some(format!("worker {} wrote no readable summary", sl.offset)),
                        }
                    } else {
                        // died or stalled inside a scenario: which one?
                        let idx: Option<u64> = journal.split_whitespace().nth(1).and_then(|s| s.parse().ok());
                        worker_restarts += 1;
                        match idx {
                            Some(idx) => {
                                let how = format!("worker status {:?}, journal '{}'", status, journal);
                                // isolate: must fail the same way twice in a fresh guarded child
                                let mut fails = 0;
                                let emit = scratch.join(format!("emit-{idx}.json"));
                                for _ in 0..2 {
                                    let st = run_guarded(&exe, &["r-one", "--seed", &seed.to_string(), "--index", &idx.to_string(), "--tier", tier, "--emit", emit.to_str().unwrap()], SCENARIO_WALL_LIMIT_S + 10.0);
                                    if st != Some(0) {
                                        fails += 1;
                                    }
                                }
                                if fails == 2 {
                                    let scv: Value = std::fs::read_to_string(&emit).ok().and_then(|s| serde_json::from_str(&s).ok()).unwrap_or(Value::Null);
                                    no_return.push((idx, how, scv));
                                } else {
                                    eprintln!("note: index {idx} killed a worker ({how}) but did not reproduce in isolation ({fails}/2)");
                                    if fails == 1 {
                                        harness_err = Some(format!("index {idx} fails nondeterministically in isolation"));
                                    }
                                }
                                // salvage what the worker had done is impossible (summary is written at the end):
                                // re-run its share from the start offset up to idx in a fresh worker would double count,
                                // so restart from the next index and account the lost part as not evaluated.
                                part += 1;
                                let out = scratch.join(format!("w{}-{}.json", sl.offset, part));
                                let from = idx + w;
                                // the part before idx is re-run too (cheap compared to losing it)
                                let redo_out = scratch.join(format!("w{}-{}-redo.json", sl.offset, part));
                                if idx > sl.from {
                                    let c = spawn_worker(&exe, seed, idx, w, sl.from, tier, &redo_out);
                                    slots.push(Slot { child: c, out: redo_out, offset: sl.offset, from: sl.from });
                                }
                                if from < count {
                                    let c = spawn_worker(&exe, seed, count, w, from, tier, &out);
                                    slots.push(Slot { child: c, out, offset: sl.offset, from });
                                }
                            }
                            None => harness_err = Some(format!("worker {} died without a journal ({:?})", sl.offset, status)),
                        }
                    }
                    let _ = &mut sl;
                }
                Ok(None) => i += 1,
                Err(e) => {
                    harness_err = Some(format!("wait: {e}"));
                    i += 1;
                }
            }
        }
        if !progressed {
            std::thread::sleep(std::time::Duration::from_millis(50));
        }
    }
    if let Some(e) = harness_err {
        eprintln!("harness error: {e}");
        let _ = std::fs::remove_dir_all(&scratch);
        return EXIT_HARNESS;
    }
    if total.evaluations == 0 {
        eprintln!("harness error: no scenario was evaluated");
        let _ = std::fs::remove_dir_all(&scratch);
        return EXIT_HARNESS;
    }

    // ---- findings for the requested property ------------------------------------------------
    let mut exit = EXIT_OK;
    let mut n_viol = 0u64;
    let mut known_lines: Vec<String> = vec![];
    let mut viol_lines: Vec<String> = vec![];
    let opts = ExecOpts::default();
    let _ = &opts;
    // signature matches that are not (or no longer) listed count as violations
    let mut groups: Vec<(String, String, u64, VRec)> = vec![]; // (prop, class, count, sample)
    for (key, cnt) in &total.viol_counts {
        let (p, c) = key.split_once('|').unwrap();
        if let Some(v) = total.viol_samples.get_mut(key).and_then(|v| if v.is_empty() { None } else { Some(v.remove(0)) }) {
            groups.push((p.to_string(), c.to_string(), *cnt, v));
        }
    }
    let mut known_for_prop: BTreeMap<String, (u64, String)> = BTreeMap::new();
    for (key, cnt) in &total.known_counts {
        let parts: Vec<&str> = key.split('|').collect();
        let (p, id, class) = (parts[0], parts[1], parts[2]);
        if is_listed(&known, p, id) {
            if p == prop {
                let e = known_for_prop.entry(id.to_string()).or_insert((0, String::new()));
                e.0 += cnt;
                if e.1.is_empty() {
                    if let Some(s) = total.known_samples.get(key) {
                        e.1 = format!("{} ({})", s.finding.as_ref().map(|f| f.detail.clone()).unwrap_or_default(), class);
                    }
                }
            }
        } else if let Some(s) = total.known_samples.remove(key) {
            groups.push((p.to_string(), format!("{class}[{id}]"), *cnt, s));
        }
    }
    for (id, (cnt, what)) in &known_for_prop {
        let entry = known.iter().find(|k| k.id == *id && k.property == prop).unwrap();
        if id == "hidden-left-recursion" {
            // Tables with such a loop are never run in-process; the canonical scenario is executed
            // for real in a guarded child on every run, so that this line disappears if the LR
            // driver ever learns to terminate on it.
            let st = run_guarded(&exe, &["r-canon"], 30.0);
            if st == Some(0) {
                println!("NOTE: the canonical hidden-left-recursion scenario now returns normally; {cnt} scenarios with a reduction loop in their table were skipped - known_findings.json should be revisited");
                continue;
            }
        }
        known_lines.push(format!("KNOWN-FINDING: property={prop} id={id} occurrences={cnt} {} -- e.g. {what}", entry.what));
    }
    // Parse stacks far deeper than any generated scenario reaches: the real parser alone (unit
    // actions), an error at end of input under n openers, in a guarded child on stacks of
    // realistic size (8 MB main thread, 2 MB spawned thread).
    let mut deep_probes = 0u64;
    if prop == "C07" {
        let probes: &[(usize, usize)] = if tier == "thorough" { &[(150_000, 2), (400_000, 8), (3_000_000, 8)] } else { &[(150_000, 2), (400_000, 8)] };
        for (n, mb) in probes {
            deep_probes += 1;
            let st = run_guarded(&exe, &["r-deep", &n.to_string(), &mb.to_string()], 120.0);
            if st != Some(0) {
                n_viol += 1;
                exit = EXIT_VIOLATION;
                let replay = json!({"engine": "R-deep", "property": "C07", "class": "C07-a-abort-under-deep-stack", "n": n, "stack_mb": mb,
                    "detail": format!("an error at end of input under a parse stack {n} entries deep (`R0: 't0' R0 | 't1';`, {n} x t0): the parser process did not return (child status {st:?}) on a {mb} MB stack")});
                let name = format!("C07-C07-a-abort-under-deep-stack-{n}-{seed}.json");
                let path = write_replay(&vdir, &name, &replay).unwrap();
                viol_lines.push(format!("VIOLATION property=C07 replay={} class=C07-a-abort-under-deep-stack occurrences=1 :: {}", path.display(), replay["detail"].as_str().unwrap()));
            }
        }
    }
    // ... and a short input on which recovery can insert for ever, under a clock fast enough for
    // the search to build chains as long as the cost type allows, on a 2 MB thread stack
    if prop == "C07" {
        deep_probes += 1;
        let st = run_guarded(&exe, &["r-chain", "2"], 120.0);
        if st != Some(0) {
            n_viol += 1;
            exit = EXIT_VIOLATION;
            let replay = json!({"engine": "R-chain", "property": "C07", "class": "C07-a-abort-after-long-repair-chain", "stack_mb": 2,
                "detail": format!("`R0: R1 't3' R0 | 't0' | R0 't3'; R1: R0 | 't3' R1;` on `t3 t3 t3 t0 t0 t3 t3` with 1.5 us per clock read: the parser process did not return (child status {st:?}) on a 2 MB stack")});
            let path = write_replay(&vdir, &format!("C07-C07-a-abort-after-long-repair-chain-{seed}.json"), &replay).unwrap();
            viol_lines.push(format!("VIOLATION property=C07 replay={} class=C07-a-abort-after-long-repair-chain occurrences=1 :: {}", path.display(), replay["detail"].as_str().unwrap()));
        }
    }
    let mut other_props = 0u64;
    for (p, class, cnt, sample) in groups {
        if p != prop {
            other_props += cnt;
            continue;
        }
        n_viol += cnt;
        exit = EXIT_VIOLATION;
        let f = sample.finding.clone().unwrap();
        let sc = sample.scenario.clone().unwrap();
        let bare_class = f.class.clone();
        // minimise in a guarded child
        let inp = scratch.join(format!("shrink-{}.json", sanitize(&class)));
        let outp = scratch.join(format!("shrunk-{}.json", sanitize(&class)));
        let _ = std::fs::write(&inp, serde_json::to_string(&json!({"property": p, "class": bare_class, "known": f.known, "scenario": sc})).unwrap());
        if let Ok(keep) = std::env::var("VERIF_KEEP_SHRINK_INPUT") {
            let _ = std::fs::copy(&inp, format!("{keep}/{}", inp.file_name().unwrap().to_string_lossy()));
        }
        let st = run_guarded(&exe, &["r-shrink", inp.to_str().unwrap(), outp.to_str().unwrap()], 180.0);
        let (final_sc, shrink_note) = match (st, std::fs::read_to_string(&outp).ok().and_then(|s| serde_json::from_str::<Value>(&s).ok())) {
            (Some(0), Some(v)) => (serde_json::from_value::<RScenario>(v["scenario"].clone()).unwrap_or(sc.clone()), format!("minimised in {} executions", v["execs"])),
            _ => (sc.clone(), "minimisation did not complete; original scenario kept".to_string()),
        };
        let replay = json!({
            "engine": "R",
            "property": p,
            "class": bare_class,
            "known_signature": f.known,
            "detail_before_minimisation": f.detail,
            "seed": seed,
            "index": sample.index,
            "variant": sample.variant,
            "occurrences_in_run": cnt,
            "minimisation": shrink_note,
            "scenario": final_sc,
        });
        let name = format!("{}-{}-{}.json", p, sanitize(&class), seed);
        let path = write_replay(&vdir, &name, &replay).unwrap();
        // replay in a fresh process must reproduce
        let st = run_guarded(&exe, &["replay", path.to_str().unwrap(), "--quiet"], 120.0);
        if st != Some(1) {
            eprintln!("harness error: replay of {} did not reproduce the violation (status {:?})", path.display(), st);
            let _ = std::fs::remove_dir_all(&scratch);
            return EXIT_HARNESS;
        }
        viol_lines.push(format!("VIOLATION property={p} replay={} class={class} occurrences={cnt} :: {}", path.display(), f.detail));
    }
    for (idx, how, scv) in &no_return {
        if prop != "C07" {
            other_props += 1;
            continue;
        }
        // A scenario that kills its worker (abort, address-space limit, stall) twice in
        // isolation: the parse does not return.
        let class = "C07-a-no-return";
        let replay = json!({"engine": "R", "property": "C07", "class": class, "seed": seed, "index": idx, "tier": tier, "how": how, "variant": scv["variant"], "scenario": scv["scenario"]});
        let name = format!("C07-{class}-{seed}-{idx}.json");
        let path = write_replay(&vdir, &name, &replay).unwrap();
        if n_viol < 5 {
            let st = run_guarded(&exe, &["replay", path.to_str().unwrap(), "--quiet"], 2.0 * SCENARIO_WALL_LIMIT_S + 30.0);
            if st != Some(1) {
                eprintln!("harness error: replay of {} did not reproduce the violation (status {:?})", path.display(), st);
                let _ = std::fs::remove_dir_all(&scratch);
                return EXIT_HARNESS;
            }
        }
        n_viol += 1;
        exit = EXIT_VIOLATION;
        viol_lines.push(format!("VIOLATION property=C07 replay={} class={class} :: index {idx} does not return ({how})", path.display()));
    }

    // ---- evidence ----------------------------------------------------------------------------
    let wall = real_now_s() - t0;
    let pi = PROPS.iter().position(|p| *p == prop).unwrap();
    let dn = distinct(std::mem::take(&mut exercised[pi]));
    let nstates = distinct(states);
    let mut extra: BTreeMap<String, Value> = BTreeMap::new();
    extra.insert("runs_per_hour".into(), json!((total.evaluations as f64 / wall * 3600.0) as u64));
    extra.insert("simulated_time_ns".into(), json!(total.sim_time_ns));
    extra.insert("clock_reads_served".into(), json!(total.clock_reads));
    extra.insert("fault_free_runs".into(), json!(total.fault_free_runs));
    extra.insert("fault_runs".into(), json!(total.fault_runs));
    extra.insert("runs_by_clock_policy".into(), json!(total.policy_runs));
    extra.insert("population_P1_runs".into(), json!(total.p1_runs));
    extra.insert("population_P2_runs".into(), json!(total.p2_runs));
    extra.insert("generator_discards".into(), json!(total.gen_discarded + total.exec_discarded));
    extra.insert("probes_and_faults_fired".into(), json!(total.probes));
    extra.insert("distinct_states".into(), json!({"count": nstates, "measure": "distinct (grammar digest, error state, error lexeme index, lexemes remaining, clock-policy class, outcome class, number of sequences)"}));
    extra.insert("worker_restarts".into(), json!(worker_restarts));
    if deep_probes > 0 {
        extra.insert("deep_stack_probes_run_in_guarded_children".into(), json!(deep_probes));
    }
    extra.insert("findings_belonging_to_other_properties".into(), json!(other_props));
    extra.insert("known_findings_matched".into(), json!(known_for_prop.iter().map(|(k, v)| (k.clone(), v.0)).collect::<BTreeMap<_, _>>()));
    extra.insert("event_log_hash".into(), json!(format!("{:016x}", total.loghash)));
    extra.insert("real_components".into(), json!(["cfgrammar (grammar front end)", "lrtable (Pager, StateTable)", "lrpar::RTParserBuilder / Parser::lr / lr_upto / lr_cactus", "lrpar::cpctplus (CPCT+ search, ranking, repair replay)", "lrpar::dijkstra", "std::time::Instant, std::collections::HashSet (through the libc seams)"]));
    extra.insert("stub_components".into(), json!(["lexer: prepared token sequence served as 1-byte lexemes", "CLOCK_MONOTONIC: simulated, every read is an event", "getrandom: SplitMix64 stream per simulated process"]));
    extra.insert("fault_kinds_not_injected".into(), json!("network, disk, allocation failure, EINTR, backward clock steps: no such surface in the recovery path (DESIGN 2.4)"));
    let ev = Evidence {
        property: prop.into(),
        tier: tier.into(),
        seed,
        evaluations: total.evaluations,
        distinct_nontrivial: dn,
        rule: format!("index i of stream VERIF_SEED -> (grammar from corpus/LR(1) templates/unconstrained random, token string = mutated derivation or random, token costs, hash seed, Tick clock); inputs with a parse error get with probability 0.6 a second run under a time-fault policy (Frac<1, Frac>1, Jump, Jump x2); with probability 0.12 (from a stream of its own) a further run in which the lexer reports an error after the input or in place of a random lexeme, stopping there or carrying on; the two RTParserBuilder setters are called in an order that alternates with the hash seed. Non-trivial for {prop} = {}; distinct = distinct digest of (grammar text, tokens, costs, hash seed, clock policy).", match prop {
            "C08" => "at least one lexeme was parsed (actions ran)",
            "C07" => "at least one lexeme, or a parse error / loop scenario",
            _ => "the parse reported at least one parse error (recovery ran)",
        }),
        samples: total.samples.clone(),
        extra,
        assumptions: vec![
            "C05-C08 are judged relative to the StateTable built by lrtable (its correctness is C01/C16)".into(),
            "std reaches entropy and the monotonic clock through the libc symbols getrandom / clock_gettime (self-tested at start-up)".into(),
            "inputs have at most 24 (quick) / 40 (thorough) lexemes, except the long-tail family (300-700 lexemes, errors in the first dozen), the only one on which the ranking window TRY_PARSE_AT_MOST=250 binds; the reference ranks with the same window".into(),
            "completeness (C06 c/d) is compared only where the reference enumeration stays under its caps; the rest is counted under c06_inconclusive".into(),
        ],
        wall_s: wall,
        violations: n_viol,
    };
    if let Err(e) = ev.write(&vdir) {
        eprintln!("harness error: evidence: {e}");
        return EXIT_HARNESS;
    }
    println!(
        "engine R: {} runs ({} fault-free, {} with injected clock or lexer faults), {} distinct non-trivial for {prop}, {} distinct states, {:.1}s, loghash {:016x}",
        total.evaluations, total.fault_free_runs, total.fault_runs, dn, nstates, wall, total.loghash
    );
    for l in &known_lines {
        println!("{l}");
    }
    for l in &viol_lines {
        println!("{l}");
    }
    let _ = std::fs::remove_dir_all(&scratch);
    exit
}

/// Run `sim <args>` as a child with a wall-clock limit; Some(code) or None if killed/timeout.
pub fn run_guarded(exe: &Path, args: &[&str], limit_s: f64) -> Option<i32> {
    let mut c = Command::new(exe).args(args).stdin(Stdio::null()).stdout(Stdio::null()).stderr(Stdio::null()).spawn().ok()?;
    let t0 = real_now_s();
    loop {
        match c.try_wait() {
            Ok(Some(st)) => return st.code(),
            Ok(None) => {
                if real_now_s() - t0 > limit_s {
                    let _ = c.kill();
                    let _ = c.wait();
                    return None;
                }
                std::thread::sleep(std::time::Duration::from_millis(20));
            }
            Err(_) => return None,
        }
    }
}

/// `sim r-canon`: the canonical hidden-left-recursion scenario under a 2 GB address-space limit.
pub fn canon_main() -> i32 {
    unsafe {
        let lim = libc::rlimit { rlim_cur: 2 << 30, rlim_max: 2 << 30 };
        libc::setrlimit(libc::RLIMIT_AS, &lim);
    }
    crate::common::quiet_panics();
    if crate::engine_r::run_canonical_loop() {
        0
    } else {
        4
    }
}

pub fn shrink_main(inp: &str, outp: &str) -> i32 {
    crate::common::quiet_panics();
    unsafe {
        let lim = libc::rlimit { rlim_cur: WORKER_AS_LIMIT, rlim_max: WORKER_AS_LIMIT };
        libc::setrlimit(libc::RLIMIT_AS, &lim);
    }
    let v: Value = serde_json::from_str(&std::fs::read_to_string(inp).unwrap()).unwrap();
    let sc: RScenario = serde_json::from_value(v["scenario"].clone()).unwrap();
    let prop = v["property"].as_str().unwrap();
    let class = v["class"].as_str().unwrap();
    let known = v["known"].as_str().map(|s| s.to_string());
    let opts = ExecOpts::default();
    let (small, execs) = if known.is_some() {
        // a signature match that is not listed: keep the scenario as it is
        (sc, 0)
    } else {
        shrink(&sc, prop, class, &opts, 400)
    };
    if std::env::var("VERIF_SHRINK_DEBUG").is_ok() {
        for i in 0..3 {
            eprintln!("final check {i}: {}", crate::engine_r::still_fails(&small, prop, class, &opts));
        }
    }
    std::fs::write(outp, serde_json::to_string(&json!({"scenario": small, "execs": execs})).unwrap()).unwrap();
    0
}

/// `sim replay <file>`: exit 1 and a VIOLATION line iff the recorded class reproduces. The
/// scenario itself runs in a guarded child (`replay-inner`), so that a parse that aborts, exhausts
/// its address space or never returns is observed rather than suffered.
pub fn replay_main(path: &str, quiet: bool) -> i32 {
    let v: Value = match std::fs::read_to_string(path).map_err(|e| e.to_string()).and_then(|s| serde_json::from_str(&s).map_err(|e| e.to_string())) {
        Ok(v) => v,
        Err(e) => {
            eprintln!("harness error: {e}");
            return EXIT_HARNESS;
        }
    };
    let prop = v["property"].as_str().unwrap_or("").to_string();
    let class = v["class"].as_str().unwrap_or("").to_string();
    let exe = std::env::current_exe().unwrap();
    let mut cmd = Command::new(&exe);
    cmd.args(["replay-inner", path]);
    if quiet {
        cmd.arg("--quiet");
        cmd.stderr(Stdio::null());
    }
    let mut c = match cmd.stdin(Stdio::null()).spawn() {
        Ok(c) => c,
        Err(e) => {
            eprintln!("harness error: {e}");
            return EXIT_HARNESS;
        }
    };
    let t0 = real_now_s();
    let status = loop {
        match c.try_wait() {
            Ok(Some(st)) => break Some(st),
            Ok(None) => {
                if real_now_s() - t0 > SCENARIO_WALL_LIMIT_S + 30.0 {
                    let _ = c.kill();
                    let _ = c.wait();
                    break None;
                }
                std::thread::sleep(std::time::Duration::from_millis(20));
            }
            Err(_) => break None,
        }
    };
    match status.and_then(|s| s.code()) {
        Some(c) if c == EXIT_OK || c == EXIT_VIOLATION || c == EXIT_HARNESS => c,
        other => {
            // killed by a signal (abort on allocation failure), stalled, or timed out
            if class == "C07-a-no-return" {
                println!("VIOLATION property={prop} replay={path} class={class} :: the parse did not return (child status {:?}, {:?})", other, status);
                EXIT_VIOLATION
            } else {
                eprintln!("harness error: replay child ended abnormally ({:?})", status);
                EXIT_HARNESS
            }
        }
    }
}

pub fn replay_inner_main(path: &str, quiet: bool) -> i32 {
    unsafe {
        let lim = libc::rlimit { rlim_cur: WORKER_AS_LIMIT, rlim_max: WORKER_AS_LIMIT };
        libc::setrlimit(libc::RLIMIT_AS, &lim);
    }
    if quiet {
        crate::common::quiet_panics();
    }
    let v: Value = match std::fs::read_to_string(path).map_err(|e| e.to_string()).and_then(|s| serde_json::from_str(&s).map_err(|e| e.to_string())) {
        Ok(v) => v,
        Err(e) => {
            eprintln!("harness error: {e}");
            return EXIT_HARNESS;
        }
    };
    let prop = v["property"].as_str().unwrap_or("");
    let class = v["class"].as_str().unwrap_or("");
    // watchdog
    std::thread::spawn(|| {
        std::thread::sleep(std::time::Duration::from_secs_f64(SCENARIO_WALL_LIMIT_S));
        unsafe { libc::_exit(3) };
    });
    let sc: RScenario = match serde_json::from_value(v["scenario"].clone()) {
        Ok(s) => s,
        Err(e) => {
            eprintln!("harness error: scenario: {e}");
            return EXIT_HARNESS;
        }
    };
    if let Ok(n) = std::env::var("VERIF_REPLAY_REPEAT") {
        for i in 0..n.parse::<usize>().unwrap_or(1) {
            let r = execute(&sc, &ExecOpts::default());
            eprintln!("repeat {i}: {:?}", r.findings.iter().filter(|f| f.known.is_none()).map(|f| f.class.clone()).collect::<Vec<_>>());
        }
    }
    let rep = execute(&sc, &ExecOpts::default());
    if let Some(d) = &rep.discarded {
        println!("replay: scenario discarded: {d}");
        return EXIT_OK;
    }
    let mut hit = false;
    for f in &rep.findings {
        if !quiet {
            println!("finding: property={} class={} known={:?} :: {}", f.property, f.class, f.known, f.detail);
        }
        if f.property == prop && f.class == class && (f.known.is_none() || f.known.as_deref() == v["known_signature"].as_str()) {
            hit = true;
        }
    }
    if !quiet {
        println!("clock reads {} simulated elapsed {} ns errors {} population {}", rep.clock_reads, rep.elapsed_ns, rep.n_errors, if rep.p1 { "P1" } else { "P2" });
    }
    if hit {
        println!("VIOLATION property={prop} replay={path} class={class}");
        EXIT_VIOLATION
    } else {
        println!("replay: class {class} did not reproduce");
        EXIT_OK
    }
}
