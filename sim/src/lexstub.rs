//! Stub lexer for engine R: serves a prepared token sequence as 1-byte lexemes at strictly
//! increasing offsets (random gaps), so that a lexeme's start identifies its index. Lexing itself
//! is not what C05-C08 are about.
use std::{error::Error, fmt};

use cfgrammar::Span;
use lrpar::{LexError, Lexeme, Lexer, LexerTypes, NonStreamingLexer};

#[derive(Debug, Clone)]
pub struct LT();
impl LexerTypes for LT {
    type LexemeT = Lx;
    type StorageT = u16;
    type LexErrorT = LE;
}

#[derive(Clone, Copy, Debug, Eq, Hash, PartialEq, PartialOrd, Ord)]
pub struct Lx {
    pub start: usize,
    pub len: usize,
    pub faulty: bool,
    pub tok_id: u16,
}
impl Lexeme<u16> for Lx {
    fn new(tok_id: u16, start: usize, len: usize) -> Self {
        Lx { start, len, faulty: false, tok_id }
    }
    fn new_faulty(tok_id: u16, start: usize, len: usize) -> Self {
        Lx { start, len, faulty: true, tok_id }
    }
    fn tok_id(&self) -> u16 {
        self.tok_id
    }
    fn span(&self) -> Span {
        Span::new(self.start, self.start + self.len)
    }
    fn faulty(&self) -> bool {
        self.faulty
    }
}
impl fmt::Display for Lx {
    fn fmt(&self, f: &mut fmt::Formatter) -> fmt::Result {
        write!(f, "Lx({}@{}+{})", self.tok_id, self.start, self.len)
    }
}

#[derive(Debug)]
pub struct LE(pub usize);
impl LexError for LE {
    fn span(&self) -> Span {
        Span::new(self.0, self.0)
    }
}
impl Error for LE {}
impl fmt::Display for LE {
    fn fmt(&self, _: &mut fmt::Formatter) -> fmt::Result {
        Ok(())
    }
}

pub struct StubLexer {
    pub lexemes: Vec<Lx>,
    pub text: String,
    /// injected lexing fault: the iterator yields `Err` instead of lexeme `k` (k may be
    /// `lexemes.len()`: an error after the last lexeme) and then either stops, as lrlex's lexer
    /// does, or carries on with the remaining lexemes
    pub err_at: Option<(usize, bool)>,
}

impl StubLexer {
    /// `toks[i]` is placed after `gaps[i]` filler bytes; a lexeme is one byte long, or zero bytes
    /// if `zero[i]` (a real, non-faulty zero-width lexeme, as an INDENT/DEDENT lexer produces).
    pub fn new(toks: &[u16], gaps: &[u8], zero: &[bool]) -> Self {
        let mut text = String::new();
        let mut lexemes = Vec::with_capacity(toks.len());
        for (i, t) in toks.iter().enumerate() {
            for _ in 0..gaps.get(i).copied().unwrap_or(0) {
                text.push(' ');
            }
            if zero.get(i).copied().unwrap_or(false) {
                lexemes.push(Lx::new(*t, text.len(), 0));
            } else {
                lexemes.push(Lx::new(*t, text.len(), 1));
                text.push((b'a' + (*t % 26) as u8) as char);
            }
        }
        StubLexer { lexemes, text, err_at: None }
    }
}

impl StubLexer {
    /// A lexer serving exactly these lexemes (used to parse a *repaired* input from scratch).
    pub fn from_lexemes(lexemes: Vec<Lx>) -> Self {
        let end = lexemes.iter().map(|l| l.start + l.len).max().unwrap_or(0);
        StubLexer { lexemes, text: " ".repeat(end), err_at: None }
    }
}

impl Lexer<LT> for StubLexer {
    fn iter<'a>(&'a self) -> Box<dyn Iterator<Item = Result<Lx, LE>> + 'a> {
        match self.err_at {
            None => Box::new(self.lexemes.iter().map(|x| Ok(*x))),
            Some((k, goes_on)) => {
                let k = k.min(self.lexemes.len());
                let at = self.lexemes.get(k).map(|l| l.start).unwrap_or(self.text.len());
                let tail = if goes_on { &self.lexemes[(k + 1).min(self.lexemes.len())..] } else { &self.lexemes[0..0] };
                Box::new(self.lexemes[..k].iter().map(|x| Ok(*x)).chain(std::iter::once(Err(LE(at)))).chain(tail.iter().map(|x| Ok(*x))))
            }
        }
    }
}
impl<'i> NonStreamingLexer<'i, LT> for &'i StubLexer {
    fn span_str(&self, span: Span) -> &'i str {
        &self.text[span.start()..span.end()]
    }
    fn span_lines_str(&self, _: Span) -> &'i str {
        unreachable!()
    }
    fn line_col(&self, _: Span) -> ((usize, usize), (usize, usize)) {
        unreachable!()
    }
}
impl Lexer<LT> for &StubLexer {
    fn iter<'a>(&'a self) -> Box<dyn Iterator<Item = Result<Lx, LE>> + 'a> {
        match self.err_at {
            None => Box::new(self.lexemes.iter().map(|x| Ok(*x))),
            Some((k, goes_on)) => {
                let k = k.min(self.lexemes.len());
                let at = self.lexemes.get(k).map(|l| l.start).unwrap_or(self.text.len());
                let tail = if goes_on { &self.lexemes[(k + 1).min(self.lexemes.len())..] } else { &self.lexemes[0..0] };
                Box::new(self.lexemes[..k].iter().map(|x| Ok(*x)).chain(std::iter::once(Err(LE(at)))).chain(tail.iter().map(|x| Ok(*x))))
            }
        }
    }
}
