//! Engine B (C18): histories of edits / option changes / builds on a real directory whose file
//! modification times are the simulator's clock. Every build step is a real child process
//! (`sim build-step`); the reference model is a clean build into an empty directory after every
//! step, plus a small model of "must skip / must regenerate".
use std::collections::BTreeMap;
use std::path::{Path, PathBuf};
use std::sync::Mutex;

use filetime::FileTime;
use serde::{Deserialize, Serialize};
use serde_json::{json, Value};

use crate::buildstep::{BuildSpec, LexerOpts, ParserOpts};
use crate::common::*;
use crate::engine_d::run_build_child_sig;
use crate::rng::{fnv, fnv_add, mix, Rng};
use crate::seams::real_now_s;

const ENGINE_TAG: u64 = 0x42;
const EPOCH_S: i64 = 1_700_000_000;

// ---- source pools ------------------------------------------------------------------------------

const HDR: &str = "%grmtools{yacckind: Grmtools}\n";
const HDR_ORIG: &str = "%grmtools{yacckind: Original(NoAction)}\n";
const G9: &str = concat!(
    "%start Expr\n%%\nExpr -> u64: Expr \"+\" Term { $1 + $3 } | Term { $1 } ;\nTerm -> u64: Term \"*\" Factor { $1 * $3 } | Factor { $1 } ;\nFactor -> u64: \"(\" Expr \")\" { $2 } | \"INT\" { 0 } | \"(\" \"*\"",
    // 6 x 50 tokens
    " \"INT\" \"INT\" \"INT\" \"INT\" \"INT\" \"INT\" \"INT\" \"INT\" \"INT\" \"INT\" \"INT\" \"INT\" \"INT\" \"INT\" \"INT\" \"INT\" \"INT\" \"INT\" \"INT\" \"INT\" \"INT\" \"INT\" \"INT\" \"INT\" \"INT\" \"INT\" \"INT\" \"INT\" \"INT\" \"INT\" \"INT\" \"INT\" \"INT\" \"INT\" \"INT\" \"INT\" \"INT\" \"INT\" \"INT\" \"INT\" \"INT\" \"INT\" \"INT\" \"INT\" \"INT\" \"INT\" \"INT\" \"INT\" \"INT\" \"INT\"",
    " \"INT\" \"INT\" \"INT\" \"INT\" \"INT\" \"INT\" \"INT\" \"INT\" \"INT\" \"INT\" \"INT\" \"INT\" \"INT\" \"INT\" \"INT\" \"INT\" \"INT\" \"INT\" \"INT\" \"INT\" \"INT\" \"INT\" \"INT\" \"INT\" \"INT\" \"INT\" \"INT\" \"INT\" \"INT\" \"INT\" \"INT\" \"INT\" \"INT\" \"INT\" \"INT\" \"INT\" \"INT\" \"INT\" \"INT\" \"INT\" \"INT\" \"INT\" \"INT\" \"INT\" \"INT\" \"INT\" \"INT\" \"INT\" \"INT\" \"INT\"",
    " \"INT\" \"INT\" \"INT\" \"INT\" \"INT\" \"INT\" \"INT\" \"INT\" \"INT\" \"INT\" \"INT\" \"INT\" \"INT\" \"INT\" \"INT\" \"INT\" \"INT\" \"INT\" \"INT\" \"INT\" \"INT\" \"INT\" \"INT\" \"INT\" \"INT\" \"INT\" \"INT\" \"INT\" \"INT\" \"INT\" \"INT\" \"INT\" \"INT\" \"INT\" \"INT\" \"INT\" \"INT\" \"INT\" \"INT\" \"INT\" \"INT\" \"INT\" \"INT\" \"INT\" \"INT\" \"INT\" \"INT\" \"INT\" \"INT\" \"INT\"",
    " \"INT\" \"INT\" \"INT\" \"INT\" \"INT\" \"INT\" \"INT\" \"INT\" \"INT\" \"INT\" \"INT\" \"INT\" \"INT\" \"INT\" \"INT\" \"INT\" \"INT\" \"INT\" \"INT\" \"INT\" \"INT\" \"INT\" \"INT\" \"INT\" \"INT\" \"INT\" \"INT\" \"INT\" \"INT\" \"INT\" \"INT\" \"INT\" \"INT\" \"INT\" \"INT\" \"INT\" \"INT\" \"INT\" \"INT\" \"INT\" \"INT\" \"INT\" \"INT\" \"INT\" \"INT\" \"INT\" \"INT\" \"INT\" \"INT\" \"INT\"",
    " \"INT\" \"INT\" \"INT\" \"INT\" \"INT\" \"INT\" \"INT\" \"INT\" \"INT\" \"INT\" \"INT\" \"INT\" \"INT\" \"INT\" \"INT\" \"INT\" \"INT\" \"INT\" \"INT\" \"INT\" \"INT\" \"INT\" \"INT\" \"INT\" \"INT\" \"INT\" \"INT\" \"INT\" \"INT\" \"INT\" \"INT\" \"INT\" \"INT\" \"INT\" \"INT\" \"INT\" \"INT\" \"INT\" \"INT\" \"INT\" \"INT\" \"INT\" \"INT\" \"INT\" \"INT\" \"INT\" \"INT\" \"INT\" \"INT\" \"INT\"",
    " \"INT\" \"INT\" \"INT\" \"INT\" \"INT\" \"INT\" \"INT\" \"INT\" \"INT\" \"INT\" \"INT\" \"INT\" \"INT\" \"INT\" \"INT\" \"INT\" \"INT\" \"INT\" \"INT\" \"INT\" \"INT\" \"INT\" \"INT\" \"INT\" \"INT\" \"INT\" \"INT\" \"INT\" \"INT\" \"INT\" \"INT\" \"INT\" \"INT\" \"INT\" \"INT\" \"INT\" \"INT\" \"INT\" \"INT\" \"INT\" \"INT\" \"INT\" \"INT\" \"INT\" \"INT\" \"INT\" \"INT\" \"INT\" \"INT\" \"INT\"",
    " \")\" { 0 } ;\n"
);
// two productions of ~200 symbols: every production fits a `u8`, the state graph does not (the
// panic comes from the table builder, after the old output has been deleted)
const G10: &str = concat!(
    "%start Expr\n%%\nExpr -> u64: Expr \"+\" Term { $1 + $3 } | Term { $1 } ;\nTerm -> u64: Term \"*\" Factor { $1 * $3 } | Factor { $1 } ;\nFactor -> u64: \"(\" Expr \")\" { $2 } | \"INT\" { 0 } | \"(\" \"*\"",
    " \"INT\" \"INT\" \"INT\" \"INT\" \"INT\" \"INT\" \"INT\" \"INT\" \"INT\" \"INT\" \"INT\" \"INT\" \"INT\" \"INT\" \"INT\" \"INT\" \"INT\" \"INT\" \"INT\" \"INT\" \"INT\" \"INT\" \"INT\" \"INT\" \"INT\" \"INT\" \"INT\" \"INT\" \"INT\" \"INT\" \"INT\" \"INT\" \"INT\" \"INT\" \"INT\" \"INT\" \"INT\" \"INT\" \"INT\" \"INT\" \"INT\" \"INT\" \"INT\" \"INT\" \"INT\" \"INT\" \"INT\" \"INT\" \"INT\" \"INT\"",
    " \"INT\" \"INT\" \"INT\" \"INT\" \"INT\" \"INT\" \"INT\" \"INT\" \"INT\" \"INT\" \"INT\" \"INT\" \"INT\" \"INT\" \"INT\" \"INT\" \"INT\" \"INT\" \"INT\" \"INT\" \"INT\" \"INT\" \"INT\" \"INT\" \"INT\" \"INT\" \"INT\" \"INT\" \"INT\" \"INT\" \"INT\" \"INT\" \"INT\" \"INT\" \"INT\" \"INT\" \"INT\" \"INT\" \"INT\" \"INT\" \"INT\" \"INT\" \"INT\" \"INT\" \"INT\" \"INT\" \"INT\" \"INT\" \"INT\" \"INT\"",
    " \"INT\" \"INT\" \"INT\" \"INT\" \"INT\" \"INT\" \"INT\" \"INT\" \"INT\" \"INT\" \"INT\" \"INT\" \"INT\" \"INT\" \"INT\" \"INT\" \"INT\" \"INT\" \"INT\" \"INT\" \"INT\" \"INT\" \"INT\" \"INT\" \"INT\" \"INT\" \"INT\" \"INT\" \"INT\" \"INT\" \"INT\" \"INT\" \"INT\" \"INT\" \"INT\" \"INT\" \"INT\" \"INT\" \"INT\" \"INT\" \"INT\" \"INT\" \"INT\" \"INT\" \"INT\" \"INT\" \"INT\" \"INT\" \"INT\" \"INT\"",
    " \"INT\" \"INT\" \"INT\" \"INT\" \"INT\" \"INT\" \"INT\" \"INT\" \"INT\" \"INT\" \"INT\" \"INT\" \"INT\" \"INT\" \"INT\" \"INT\" \"INT\" \"INT\" \"INT\" \"INT\" \"INT\" \"INT\" \"INT\" \"INT\" \"INT\" \"INT\" \"INT\" \"INT\" \"INT\" \"INT\" \"INT\" \"INT\" \"INT\" \"INT\" \"INT\" \"INT\" \"INT\" \"INT\" \"INT\" \"INT\" \"INT\" \"INT\" \"INT\" \"INT\" \"INT\" \"INT\" \"INT\" \"INT\" \"INT\" \"INT\"",
    " \")\" { 0 } | \"(\" \"+\"",
    " \"INT\" \"INT\" \"INT\" \"INT\" \"INT\" \"INT\" \"INT\" \"INT\" \"INT\" \"INT\" \"INT\" \"INT\" \"INT\" \"INT\" \"INT\" \"INT\" \"INT\" \"INT\" \"INT\" \"INT\" \"INT\" \"INT\" \"INT\" \"INT\" \"INT\" \"INT\" \"INT\" \"INT\" \"INT\" \"INT\" \"INT\" \"INT\" \"INT\" \"INT\" \"INT\" \"INT\" \"INT\" \"INT\" \"INT\" \"INT\" \"INT\" \"INT\" \"INT\" \"INT\" \"INT\" \"INT\" \"INT\" \"INT\" \"INT\" \"INT\"",
    " \"INT\" \"INT\" \"INT\" \"INT\" \"INT\" \"INT\" \"INT\" \"INT\" \"INT\" \"INT\" \"INT\" \"INT\" \"INT\" \"INT\" \"INT\" \"INT\" \"INT\" \"INT\" \"INT\" \"INT\" \"INT\" \"INT\" \"INT\" \"INT\" \"INT\" \"INT\" \"INT\" \"INT\" \"INT\" \"INT\" \"INT\" \"INT\" \"INT\" \"INT\" \"INT\" \"INT\" \"INT\" \"INT\" \"INT\" \"INT\" \"INT\" \"INT\" \"INT\" \"INT\" \"INT\" \"INT\" \"INT\" \"INT\" \"INT\" \"INT\"",
    " \"INT\" \"INT\" \"INT\" \"INT\" \"INT\" \"INT\" \"INT\" \"INT\" \"INT\" \"INT\" \"INT\" \"INT\" \"INT\" \"INT\" \"INT\" \"INT\" \"INT\" \"INT\" \"INT\" \"INT\" \"INT\" \"INT\" \"INT\" \"INT\" \"INT\" \"INT\" \"INT\" \"INT\" \"INT\" \"INT\" \"INT\" \"INT\" \"INT\" \"INT\" \"INT\" \"INT\" \"INT\" \"INT\" \"INT\" \"INT\" \"INT\" \"INT\" \"INT\" \"INT\" \"INT\" \"INT\" \"INT\" \"INT\" \"INT\" \"INT\"",
    " \"INT\" \"INT\" \"INT\" \"INT\" \"INT\" \"INT\" \"INT\" \"INT\" \"INT\" \"INT\" \"INT\" \"INT\" \"INT\" \"INT\" \"INT\" \"INT\" \"INT\" \"INT\" \"INT\" \"INT\" \"INT\" \"INT\" \"INT\" \"INT\" \"INT\" \"INT\" \"INT\" \"INT\" \"INT\" \"INT\" \"INT\" \"INT\" \"INT\" \"INT\" \"INT\" \"INT\" \"INT\" \"INT\" \"INT\" \"INT\" \"INT\" \"INT\" \"INT\" \"INT\" \"INT\" \"INT\" \"INT\" \"INT\" \"INT\" \"INT\"",
    " \")\" { 1 } ;\n"
);
pub const GRAMMARS: &[(&str, &str)] = &[
    ("g0-calc", "%start Expr\n%%\nExpr -> u64: Expr \"+\" Term { $1 + $3 } | Term { $1 } ;\nTerm -> u64: Term \"*\" Factor { $1 * $3 } | Factor { $1 } ;\nFactor -> u64: \"(\" Expr \")\" { $2 } | \"INT\" { 0 } ;\n"),
    ("g1-minus", "%start Expr\n%%\nExpr -> u64: Expr \"+\" Term { $1 + $3 } | Expr \"-\" Term { $1 - $3 } | Term { $1 } ;\nTerm -> u64: Term \"*\" Factor { $1 * $3 } | Factor { $1 } ;\nFactor -> u64: \"(\" Expr \")\" { $2 } | \"INT\" { 0 } ;\n"),
    ("g2-same-tokens-other-rules", "%start Expr\n%%\nExpr -> u64: Term \"+\" Expr { $1 + $3 } | Term { $1 } ;\nTerm -> u64: Factor \"*\" Term { $1 * $3 } | Factor { $1 } ;\nFactor -> u64: \"(\" Expr \")\" { $2 } | \"INT\" { 1 } ;\n"),
    ("g3-conflict-expect-ok", "%start Expr\n%expect 2\n%%\nExpr -> u64: Expr \"+\" Expr { $1 + $3 } | Expr \"*\" Expr { $1 * $3 } | \"(\" Expr \")\" { $2 } | \"INT\" { 0 } ;\n"),
    ("g4-conflict-expect-wrong", "%start Expr\n%expect 1\n%%\nExpr -> u64: Expr \"+\" Expr { $1 + $3 } | Expr \"*\" Expr { $1 * $3 } | \"(\" Expr \")\" { $2 } | \"INT\" { 0 } ;\n"),
    ("g5-unused-token-warning", "%start Expr\n%token UNUSED\n%%\nExpr -> u64: Expr \"+\" Term { $1 + $3 } | Term { $1 } ;\nTerm -> u64: Term \"*\" Factor { $1 * $3 } | Factor { $1 } ;\nFactor -> u64: \"(\" Expr \")\" { $2 } | \"INT\" { 0 } ;\n"),
    ("g7-same-tokens-other-ids", "%start Expr\n%token \"INT\" \")\" \"(\" \"*\" \"+\"\n%%\nExpr -> u64: Expr \"+\" Term { $1 + $3 } | Term { $1 } ;\nTerm -> u64: Term \"*\" Factor { $1 * $3 } | Factor { $1 } ;\nFactor -> u64: \"(\" Expr \")\" { $2 } | \"INT\" { 0 } ;\n"),
    ("g8-same-tokens-other-ids-2", "%start Expr\n%token \"*\" \"+\" \"INT\" \"(\" \")\"\n%%\nExpr -> u64: Expr \"+\" Term { $1 + $3 } | Term { $1 } ;\nTerm -> u64: Term \"*\" Factor { $1 * $3 } | Factor { $1 } ;\nFactor -> u64: \"(\" Expr \")\" { $2 } | \"INT\" { 0 } ;\n"),
    // one production with 300 symbols: more than 255 LR states, which a `u8` storage type
    // cannot number (the table builder panics) - a *valid* grammar whose build fails by panic
    ("g9-long-production", G9),
    ("g10-many-states", G10),
    // Original-Yacc syntax (no action types): builds under Original(NoAction) and
    // Original(GenericParseTree), which must not be confused with each other
    ("go0-orig", "%start Expr\n%%\nExpr: Expr \"+\" Term | Term ;\nTerm: Term \"*\" Factor | Factor ;\nFactor: \"(\" Expr \")\" | \"INT\" ;\n"),
    ("go1-orig-other-rules", "%start Expr\n%%\nExpr: Term \"+\" Expr | Term ;\nTerm: Factor \"*\" Term | Factor ;\nFactor: \"(\" Expr \")\" | \"INT\" ;\n"),
    ("g12-no-tokens", "%start Expr\n%%\nExpr -> u64: { 0 } ;\n"),
    ("g6-comment-only-change", "%start Expr\n%%\n// a comment\nExpr -> u64: Expr \"+\" Term { $1 + $3 } | Term { $1 } ;\nTerm -> u64: Term \"*\" Factor { $1 * $3 } | Factor { $1 } ;\nFactor -> u64: \"(\" Expr \")\" { $2 } | \"INT\" { 0 } ;\n"),
];
pub const BROKEN_GRAMMARS: &[(&str, &str)] = &[
    ("gb0-syntax-error", "%start Expr\n%%\nExpr -> u64: Expr \"+\" { ;\n"),
    ("gb1-unknown-rule", "%start Expr\n%%\nExpr -> u64: Nope \"+\" Expr { 0 } | \"INT\" { 0 };\n"),
    ("gb2-bad-start", "%start Nope\n%%\nExpr -> u64: \"INT\" { 0 };\n"),
];
pub const LEXERS: &[(&str, &str)] = &[
    ("l0", "%%\n[0-9]+ \"INT\"\n\\+ \"+\"\n\\* \"*\"\n\\( \"(\"\n\\) \")\"\n[ \\t\\n]+ ;\n"),
    ("l1-minus", "%%\n[0-9]+ \"INT\"\n\\+ \"+\"\n- \"-\"\n\\* \"*\"\n\\( \"(\"\n\\) \")\"\n[ \\t\\n]+ ;\n"),
    ("l2-no-star", "%%\n[0-9]+ \"INT\"\n\\+ \"+\"\n\\( \"(\"\n\\) \")\"\n[ \\t\\n]+ ;\n"),
    ("l3-extra-token", "%%\n[0-9]+ \"INT\"\n\\+ \"+\"\n\\* \"*\"\n\\^ \"^\"\n\\( \"(\"\n\\) \")\"\n[ \\t\\n]+ ;\n"),
    ("l4-hex-int", "%%\n[0-9a-f]+ \"INT\"\n\\+ \"+\"\n\\* \"*\"\n\\( \"(\"\n\\) \")\"\n[ \\t\\n]+ ;\n"),
];
pub const BROKEN_LEXERS: &[(&str, &str)] = &[
    ("lb0-bad-regex", "%%\n[0-9+ \"INT\"\n\\+ \"+\"\n"),
    ("lb1-bad-header", "%grmtools{lexerkind: Nonsense}\n%%\n[0-9]+ \"INT\"\n"),
    ("lb2-no-rule-name", "%%\n[0-9]+\n"),
];

#[derive(Serialize, Deserialize, Clone, Debug, PartialEq)]
pub enum Op {
    /// (variant name, with %grmtools header)
    EditGrammar(String, bool),
    /// same, with a constant in an action replaced by `salt`: an unbounded family of grammars
    /// with identical token sets (so that only the mtime comparison can tell them apart)
    EditGrammarSalted(String, bool, u32),
    EditLexer(String),
    SetParserOpt(String, Option<String>),
    SetLexerOpt(String, Option<String>),
    SetFlow(String),
    Tick(u64),
    TouchGrammar,
    TouchLexer,
    /// the source file disappears (a later edit re-creates it)
    RemoveGrammarSource,
    RemoveLexerSource,
    /// the builder is pointed at another file of the same name in another directory (created, on
    /// first use, as a variant of the current grammar with the same tokens and a very old stamp)
    SwitchGrammarFile,
    DeleteParserOut,
    DeleteLexerOut,
    /// fault: None | ("error"|"crash", byte limit)
    Build(Option<(String, u64)>),
}

#[derive(Serialize, Deserialize, Clone, Debug, PartialEq)]
pub struct BScenario {
    pub hash_seed: u64,
    pub ops: Vec<Op>,
    /// src/g.y and src/g.l are symbolic links to files in another directory (a shared or
    /// vendored grammar): edits and touches go to the target, the link itself never changes
    #[serde(default)]
    pub symlinked_sources: bool,
    /// A *layout history* (then `ops` is empty): the sources (g0 / l0, never edited) live in
    /// `src/<gdir>/g.y` and `src/<ldir>/g.l` and are moved from one step to the next; every step
    /// builds with `grammar_in_src_dir` / `lexer_in_src_dir` into one persistent OUT_DIR and, as
    /// the reference, into an empty one.
    #[serde(default)]
    pub layouts: Vec<(String, String)>,
}

#[derive(Clone, Debug, Serialize, Deserialize)]
pub struct BFinding {
    pub class: String,
    pub detail: String,
    pub known: Option<String>,
    pub at_op: usize,
}

#[derive(Default)]
pub struct BReport {
    pub findings: Vec<BFinding>,
    pub probes: BTreeMap<&'static str, u64>,
    pub states: Vec<u64>,
    pub builds: u64,
    pub log_hash: u64,
    pub nontrivial: bool,
}

/// 220 tokens: the cache comment at the end of the generated parser (one entry per token) grows
/// to several KiB.
const MANY: usize = 220;
fn many_tokens_grammar() -> String {
    let mut s = String::from("%start Expr\n%%\nExpr -> u64: Expr \"+\" Term { $1 + $3 } | Term { $1 } ;\nTerm -> u64: Term \"*\" Factor { $1 * $3 } | Factor { $1 } ;\nFactor -> u64: \"(\" Expr \")\" { $2 } | \"INT\" { 0 } | Kw { $1 } ;\nKw -> u64:");
    for i in 0..MANY {
        s.push_str(&format!("{} \"K{i}\" {{ {i} }}", if i == 0 { "" } else { " |" }));
    }
    s.push_str(" ;\n");
    s
}
fn many_tokens_lexer() -> String {
    let mut s = String::from("%%\n[0-9]+ \"INT\"\n\\+ \"+\"\n\\* \"*\"\n\\( \"(\"\n\\) \")\"\n");
    for i in 0..MANY {
        s.push_str(&format!("k{i}_ \"K{i}\"\n"));
    }
    s.push_str("[ \\t\\n]+ ;\n");
    s
}

fn grammar_text(name: &str, header: bool) -> String {
    if name == "g11-many-tokens" {
        return if header { format!("{HDR}{}", many_tokens_grammar()) } else { many_tokens_grammar() };
    }
    let body = GRAMMARS.iter().chain(BROKEN_GRAMMARS.iter()).find(|(n, _)| *n == name).map(|(_, t)| *t).unwrap_or("");
    if name == "gbh-bad-header" {
        return format!("%grmtools{{yacckind: Nonsense}}\n{}", GRAMMARS[0].1);
    }
    if header && name.starts_with("go") {
        format!("{HDR_ORIG}{body}")
    } else if header {
        format!("{HDR}{body}")
    } else {
        body.to_string()
    }
}
fn lexer_text(name: &str) -> String {
    if name == "l5-many-tokens" {
        return many_tokens_lexer();
    }
    LEXERS.iter().chain(BROKEN_LEXERS.iter()).find(|(n, _)| *n == name).map(|(_, t)| t.to_string()).unwrap_or_default()
}

fn set_popt(o: &mut ParserOpts, k: &str, v: &Option<String>) {
    let b = |v: &Option<String>| v.as_ref().map(|s| s == "true");
    match k {
        "yacckind" => o.yacckind = v.clone(),
        "recoverer" => o.recoverer = v.clone(),
        "visibility" => o.visibility = v.clone(),
        "rust_edition" => o.rust_edition = v.clone(),
        "mod_name" => o.mod_name = v.clone(),
        "error_on_conflicts" => o.error_on_conflicts = b(v),
        "warnings_are_errors" => o.warnings_are_errors = b(v),
        "show_warnings" => o.show_warnings = b(v),
        "serialisation_format" => o.serialisation_format = v.clone(),
        "storaget" => o.storaget = v.clone(),
        "token_map_rename" => o.token_map_rename = v.clone(),
        _ => {}
    }
}
fn set_lopt(o: &mut LexerOpts, k: &str, v: &Option<String>) {
    let b = |v: &Option<String>| v.as_ref().map(|s| s == "true");
    match k {
        "visibility" => o.visibility = v.clone(),
        "rust_edition" => o.rust_edition = v.clone(),
        "mod_name" => o.mod_name = v.clone(),
        "allow_missing_terms_in_lexer" => o.allow_missing_terms_in_lexer = b(v),
        "allow_missing_tokens_in_parser" => o.allow_missing_tokens_in_parser = b(v),
        "case_insensitive" => o.case_insensitive = b(v),
        "dot_matches_new_line" => o.dot_matches_new_line = b(v),
        "warnings_are_errors" => o.warnings_are_errors = b(v),
        _ => match v {
            Some(v) => {
                o.extra.insert(k.to_string(), v.clone());
            }
            None => {
                o.extra.remove(k);
            }
        },
    }
}

fn stamp(p: &Path, sim_ns: u64) {
    let ft = FileTime::from_unix_time(EPOCH_S + (sim_ns / 1_000_000_000) as i64, (sim_ns % 1_000_000_000) as u32);
    let _ = filetime::set_file_mtime(p, ft);
}
fn mtime_ns(p: &Path) -> Option<i128> {
    let md = std::fs::metadata(p).ok()?;
    let ft = FileTime::from_last_modification_time(&md);
    Some((ft.unix_seconds() as i128 - EPOCH_S as i128) * 1_000_000_000 + ft.nanoseconds() as i128)
}

/// Content hash with the (process-specific) scratch path masked: the grammar path is part of the
/// cache comment.
fn norm_hash(b: &[u8], dir: &Path) -> u64 {
    let s = String::from_utf8_lossy(b).replace(dir.to_str().unwrap_or(""), "<DIR>");
    fnv(s.as_bytes())
}

pub fn execute(exe: &Path, sc: &BScenario, dir: &Path) -> BReport {
    if !sc.layouts.is_empty() {
        return execute_layouts(exe, sc, dir);
    }
    let mut rep = BReport::default();
    let _ = std::fs::remove_dir_all(dir);
    let src = dir.join("src");
    let out = dir.join("out");
    let clean = dir.join("clean");
    std::fs::create_dir_all(&src).unwrap();
    std::fs::create_dir_all(&out).unwrap();
    let mut gy = src.join("g.y");
    let gl = src.join("g.l");
    let py = out.join("g.y.rs");
    let pl = out.join("g.l.rs");
    let mut now: u64 = 1_000_000_000; // simulated ns
    // initial sources
    let mut gname = ("g0-calc".to_string(), true);
    let mut lname = "l0".to_string();
    if sc.symlinked_sources {
        let shared = dir.join("shared");
        std::fs::create_dir_all(&shared).unwrap();
        for (link, name) in [(&gy, "g.y"), (&gl, "g.l")] {
            std::fs::write(shared.join(name), "").unwrap();
            std::os::unix::fs::symlink(shared.join(name), link).unwrap();
            // the link's own timestamps come from the simulated clock too (lstat sees these)
            let ft = FileTime::from_unix_time(EPOCH_S + (now / 1_000_000_000) as i64, (now % 1_000_000_000) as u32);
            let _ = filetime::set_symlink_file_times(link, ft, ft);
        }
        rep.probes.insert("histories_with_symlinked_sources", 1);
    }
    std::fs::write(&gy, grammar_text(&gname.0, gname.1)).unwrap();
    std::fs::write(&gl, lexer_text(&lname)).unwrap();
    stamp(&gy, now);
    stamp(&gl, now);
    // Every option is always passed explicitly (so that "same key" means "same calls on the
    // builders"); only yacckind, recoverer and mod_name may be left unset.
    let mut popts = ParserOpts {
        yacckind: None,
        recoverer: None,
        visibility: Some("Private".into()),
        rust_edition: Some("2021".into()),
        mod_name: None,
        error_on_conflicts: Some(true),
        warnings_are_errors: Some(true),
        show_warnings: Some(false),
        serialisation_format: Some("VariableSizedInteger".into()),
        storaget: Some("u32".into()),
        token_map_rename: Some("true".into()),
    };
    let mut lopts = LexerOpts {
        visibility: Some("Private".into()),
        rust_edition: Some("2021".into()),
        mod_name: None,
        allow_missing_terms_in_lexer: Some(false),
        allow_missing_tokens_in_parser: Some(false),
        case_insensitive: Some(false),
        dot_matches_new_line: Some(false),
        warnings_are_errors: Some(false),
        extra: Default::default(),
    };
    let mut flow = "combined".to_string();
    // model
    #[derive(Clone, PartialEq, Debug)]
    struct Key(String, String); // (sources, settings) relevant to one output file
    let mut prov_y: Option<Key> = None; // what out/g.y.rs was generated from (None: absent / partial)
    let mut prov_l: Option<Key> = None;
    let mut dirty = true; // something changed / touched / deleted since the last successful build
    let mut last_ok_tie = true; // at the last successful build, did a source share its stamp with the outputs?
    let mut pending_fault = false; // a faulted build happened since the last successful one
    let mut lh = fnv(b"B");
    let mut add = |rep: &mut BReport, class: &str, detail: String, known: Option<&str>, at: usize| {
        rep.findings.push(BFinding { class: class.into(), detail, known: known.map(|s| s.into()), at_op: at });
    };
    for (oi, op) in sc.ops.iter().enumerate() {
        match op {
            Op::EditGrammar(n, h) => {
                gname = (n.clone(), *h);
                std::fs::write(&gy, grammar_text(n, *h)).unwrap();
                stamp(&gy, now);
                dirty = true;
            }
            Op::EditGrammarSalted(n, h, salt) => {
                gname = (format!("{n}#{salt}"), *h);
                std::fs::write(&gy, grammar_text(n, *h).replace("\"INT\" { 0 }", &format!("\"INT\" {{ {salt} }}"))).unwrap();
                stamp(&gy, now);
                dirty = true;
            }
            Op::EditLexer(n) => {
                lname = n.clone();
                std::fs::write(&gl, lexer_text(n)).unwrap();
                stamp(&gl, now);
                dirty = true;
            }
            Op::SetParserOpt(k, v) => {
                set_popt(&mut popts, k, v);
                dirty = true;
            }
            Op::SetLexerOpt(k, v) => {
                set_lopt(&mut lopts, k, v);
                dirty = true;
            }
            Op::SetFlow(f) => {
                flow = f.clone();
                dirty = true;
            }
            Op::Tick(d) => now += d,
            Op::TouchGrammar => {
                stamp(&gy, now);
                dirty = true;
            }
            Op::TouchLexer => {
                stamp(&gl, now);
                dirty = true;
            }
            Op::RemoveGrammarSource => {
                let _ = std::fs::remove_file(&gy);
                dirty = true;
                *rep.probes.entry("source_files_removed").or_insert(0) += 1;
            }
            Op::RemoveLexerSource => {
                let _ = std::fs::remove_file(&gl);
                dirty = true;
                *rep.probes.entry("source_files_removed").or_insert(0) += 1;
            }
            Op::SwitchGrammarFile => {
                let other = if gy.starts_with(&src) { dir.join("alt").join("g.y") } else { src.join("g.y") };
                if !other.exists() {
                    let _ = std::fs::create_dir_all(other.parent().unwrap());
                    let (base, hdr) = (gname.0.split(['#', '@']).next().unwrap_or("g0-calc").to_string(), gname.1);
                    std::fs::write(&other, grammar_text(&base, hdr).replace("\"INT\" { 0 }", "\"INT\" { 424242 }")).unwrap();
                    // older than anything the history has produced
                    stamp(&other, 1);
                }
                gy = other;
                gname = (format!("{}@{}", gname.0.split('@').next().unwrap_or(""), if gy.starts_with(&src) { "src" } else { "alt" }), gname.1);
                dirty = true;
                *rep.probes.entry("grammar_path_switched_to_a_same_named_file").or_insert(0) += 1;
            }
            Op::DeleteParserOut => {
                let _ = std::fs::remove_file(&py);
                prov_y = None;
                dirty = true;
            }
            Op::DeleteLexerOut => {
                let _ = std::fs::remove_file(&pl);
                prov_l = None;
                dirty = true;
            }
            Op::Build(fault) => {
                rep.builds += 1;
                let gsrc = std::fs::read_to_string(&gy).unwrap_or_default();
                let lsrc = std::fs::read_to_string(&gl).unwrap_or_default();
                // effective settings: an unset yacckind comes from the %grmtools header, an unset
                // recoverer is CPCT+ (no test grammar sets one in its header)
                let mut eff = popts.clone();
                if eff.yacckind.is_none() {
                    eff.yacckind = Some(if gsrc.starts_with(HDR) {
                        "Grmtools".into()
                    } else if gsrc.starts_with(HDR_ORIG) {
                        "Original(NoAction)".into()
                    } else {
                        "<missing>".into()
                    });
                }
                if eff.recoverer.is_none() {
                    eff.recoverer = Some("CPCTPlus".into());
                }
                // (an input of the token-map step only: no part of what the parser or the lexer is
                // generated from)
                eff.token_map_rename = None;
                let key_y = Key(gsrc.clone(), format!("{:?}|{}", eff, if gy.starts_with(&src) { "src" } else { "alt" }));
                let key_l = Key(format!("{gsrc}\u{0}{lsrc}"), format!("{:?}|{:?}|{:?}", eff.yacckind, eff.storaget, lopts));
                let before_y = (std::fs::read(&py).ok(), mtime_ns(&py));
                let before_l = (std::fs::read(&pl).ok(), mtime_ns(&pl));
                let src_tie = {
                    // a source shares its stamp with (or is newer than) an existing output
                    let my = mtime_ns(&gy).unwrap_or(0);
                    before_y.1.map_or(true, |o| o <= my)
                };
                let mk_spec = |py: &Path, pl: &Path, fault: &Option<(String, u64)>| BuildSpec {
                    hash_seed: sc.hash_seed.wrapping_add(oi as u64),
                    grammar_path: gy.to_str().unwrap().into(),
                    lexer_path: gl.to_str().unwrap().into(),
                    parser_out: py.to_str().unwrap().into(),
                    lexer_out: pl.to_str().unwrap().into(),
                    parser: popts.clone(),
                    lexer: lopts.clone(),
                    flow: flow.clone(),
                    token_map_dir: Some(py.parent().unwrap().to_str().unwrap().into()),
                    fsize_limit: fault.as_ref().map(|f| f.1),
                    fsize_mode: fault.as_ref().map(|f| f.0.clone()),
                    prelude: vec![],
                    lex_probe: None,
                    src_dir_mode: None,
                    cwd: None,
                };
                let (code, sig, res) = run_build_child_sig(exe, &mk_spec(&py, &pl, fault), dir, "b");
                let crashed = sig.is_some() || (code != Some(0));
                let ok = !crashed && res.as_ref().map_or(false, |r| r.ok);
                // reference: clean build of the same sources and settings into an empty directory
                let _ = std::fs::remove_dir_all(&clean);
                std::fs::create_dir_all(&clean).unwrap();
                let (ccode, _csig, cres) = run_build_child_sig(exe, &mk_spec(&clean.join("g.y.rs"), &clean.join("g.l.rs"), &None), dir, "c");
                let clean_ok = ccode == Some(0) && cres.as_ref().map_or(false, |r| r.ok);
                let after_y = (std::fs::read(&py).ok(), mtime_ns(&py));
                let after_l = (std::fs::read(&pl).ok(), mtime_ns(&pl));
                let rewritten_y = after_y.0.is_some() && (after_y.1 != before_y.1 || after_y.0 != before_y.0);
                let rewritten_l = after_l.0.is_some() && (after_l.1 != before_l.1 || after_l.0 != before_l.0);
                // A short write *without* error is absorbed by `write_all`: it never makes a build
                // fail and never leaves a partial file, so the model treats such a build as fault-free
                // (outcome and outputs are compared with the clean build as usual).
                let injected = fault;
                let hard = fault.clone().filter(|f| f.0 != "short");
                let fault = &hard;
                let fault_fired = fault.is_some() && (crashed || !ok);
                lh = fnv_add(lh, format!("{oi}|{ok}|{crashed}|{clean_ok}|{rewritten_y}|{rewritten_l}|{:?}|{:?}", after_y.0.as_ref().map(|b| norm_hash(b, dir)), after_l.0.as_ref().map(|b| norm_hash(b, dir))).as_bytes());
                match fault {
                    Some((m, _)) if fault_fired => {
                        *rep.probes.entry(if m == "crash" { "builds_crashed_mid_write" } else { "builds_with_short_write_error" }).or_insert(0) += 1;
                        if after_y.0.is_some() && after_y.0 != std::fs::read(clean.join("g.y.rs")).ok() {
                            *rep.probes.entry("torn_or_partial_parser_output_left_on_disk").or_insert(0) += 1;
                        }
                    }
                    Some(_) => *rep.probes.entry("write_fault_armed_but_not_reached").or_insert(0) += 1,
                    None => {}
                }
                if fault.is_none() && ok != clean_ok {
                    add(&mut rep, "outcome-differs-from-clean-build", format!("op {oi}: incremental build succeeded: {ok}, clean build of the same sources and settings: {clean_ok} ({:?} / {:?})", res.as_ref().map(|r| r.error.chars().take(160).collect::<String>()), cres.as_ref().map(|r| r.error.chars().take(160).collect::<String>())), None, oi);
                }
                if res.as_ref().map_or(0, |r| r.short_writes) > 0 {
                    *rep.probes.entry("short_writes_injected_without_error").or_insert(0) += 1;
                }
                if ok {
                    *rep.probes.entry("successful_builds").or_insert(0) += 1;
                    // cargo re-runs a build script only for the paths it was told about, once it
                    // has been told about any: a builder that announces one source must announce all
                    let announced = res.as_ref().map(|r| r.rerun_if_changed.clone()).unwrap_or_default();
                    if !announced.is_empty() {
                        *rep.probes.entry("builds_that_print_rerun_if_changed").or_insert(0) += 1;
                        for (what, pth) in [("grammar", &gy), ("lexer", &gl)] {
                            if !announced.iter().any(|a| Path::new(a) == pth.as_path()) {
                                add(&mut rep, "rerun-if-changed-incomplete", format!("op {oi}: the build prints cargo:rerun-if-changed for {:?} but not for the {what} source {}: cargo will not re-run the build script when it is edited", announced, pth.display()), None, oi);
                            }
                        }
                    }
                    // the token map generated next to the outputs (CTTokenMapBuilder)
                    let (tm, ctm) = (std::fs::read(py.parent().unwrap().join("token_map.rs")).ok(), std::fs::read(clean.join("token_map.rs")).ok());
                    if clean_ok && tm != ctm {
                        add(&mut rep, "token-map-differs-from-clean-build", format!("op {oi}: out/token_map.rs ({}) differs from the one a clean build writes ({}); grammar {}", tm.as_ref().map_or("absent".into(), |b| format!("{} bytes", b.len())), ctm.as_ref().map_or("absent".into(), |b| format!("{} bytes", b.len())), gname.0), None, oi);
                    }
                    // 1. byte-identical to the clean build
                    let cy = std::fs::read(clean.join("g.y.rs")).ok();
                    let cl = std::fs::read(clean.join("g.l.rs")).ok();
                    if clean_ok {
                        if after_y.0 != cy {
                            add(&mut rep, "parser-output-differs-from-clean-build", format!("op {oi}: out/g.y.rs ({} bytes) differs from a clean build of the current sources and settings ({} bytes); grammar {} lexer {} opts {:?}", after_y.0.as_ref().map_or(0, |b| b.len()), cy.as_ref().map_or(0, |b| b.len()), gname.0, lname, popts), None, oi);
                        }
                        if after_l.0 != cl {
                            add(&mut rep, "lexer-output-differs-from-clean-build", format!("op {oi}: out/g.l.rs ({} bytes) differs from a clean build of the current sources and settings ({} bytes); grammar {} lexer {} opts {:?}", after_l.0.as_ref().map_or(0, |b| b.len()), cl.as_ref().map_or(0, |b| b.len()), gname.0, lname, lopts), None, oi);
                        }
                    }
                    if pending_fault {
                        *rep.probes.entry("fault_free_builds_after_a_faulted_one").or_insert(0) += 1;
                    }
                    // 3. skip / regenerate model
                    let reported = res.as_ref().and_then(|r| r.reported_regenerated);
                    let unchanged = !dirty && !pending_fault && prov_y.as_ref() == Some(&key_y) && prov_l.as_ref() == Some(&key_l);
                    if unchanged && !last_ok_tie {
                        *rep.probes.entry("builds_that_must_skip").or_insert(0) += 1;
                        if rewritten_y || reported == Some(true) {
                            add(&mut rep, "unchanged-configuration-regenerated", format!("op {oi}: nothing changed since the last successful build and the outputs are strictly newer than the sources, but the parser was regenerated (rewritten: {rewritten_y}, regenerated(): {:?})", reported), None, oi);
                        }
                        if rewritten_l {
                            add(&mut rep, "unchanged-configuration-regenerated", format!("op {oi}: nothing changed since the last successful build but out/g.l.rs was rewritten"), None, oi);
                        }
                    } else if unchanged {
                        *rep.probes.entry("rebuilds_with_timestamp_tie").or_insert(0) += 1;
                    }
                    if prov_y.as_ref() != Some(&key_y) {
                        *rep.probes.entry("builds_after_a_change_to_the_parser_inputs").or_insert(0) += 1;
                        rep.nontrivial = true;
                        if reported == Some(false) {
                            add(&mut rep, "changed-configuration-reported-not-regenerated", format!("op {oi}: grammar or parser settings changed since out/g.y.rs was generated, but regenerated() is false"), None, oi);
                        }
                    }
                    if !rewritten_y {
                        *rep.probes.entry("parser_generation_skipped").or_insert(0) += 1;
                    }
                    prov_y = Some(key_y.clone());
                    prov_l = Some(key_l.clone());
                    dirty = false;
                    pending_fault = false;
                    last_ok_tie = src_tie && !rewritten_y;
                    // outputs written by this build carry real mtimes: stamp them with simulated time
                    if rewritten_y {
                        stamp(&py, now);
                    }
                    if rewritten_l {
                        stamp(&pl, now);
                    }
                    // the outputs' stamps equal `now`; a tie with a source stamp exists iff a
                    // source was stamped at `now` too
                    last_ok_tie = mtime_ns(&gy) >= mtime_ns(&py) || mtime_ns(&gl) >= mtime_ns(&pl);
                } else {
                    *rep.probes.entry(if crashed { "builds_crashed" } else { "failing_builds" }).or_insert(0) += 1;
                    if fault_fired {
                        pending_fault = true;
                        // whatever is on disk now may be a partial file of the *current* configuration
                        if rewritten_y || after_y.0.is_none() {
                            prov_y = None;
                        }
                        if rewritten_l || after_l.0.is_none() {
                            prov_l = None;
                        }
                    } else {
                        // 2. a failing build must not leave a stale file from an earlier configuration
                        let err = res.as_ref().map(|r| r.error.clone()).unwrap_or_default();
                        // the token-map step itself failed (a token name that is no identifier):
                        // like the other two builders it must not leave an earlier module behind
                        if err.starts_with("token map:") && py.parent().unwrap().join("token_map.rs").exists() && !clean.join("token_map.rs").exists() {
                            add(&mut rep, "stale-token-map-after-failing-build", format!("op {oi}: CTTokenMapBuilder failed ({}) but out/token_map.rs of an earlier build is still on disk (a clean build leaves none)", err.chars().take(120).collect::<String>()), None, oi);
                        }
                        let panicked = res.as_ref().map_or(false, |r| r.panicked);
                        if after_y.0.is_none() {
                            prov_y = None;
                        }
                        if after_l.0.is_none() {
                            prov_l = None;
                        }
                        if rewritten_y {
                            // the parser half succeeded for the current configuration
                            prov_y = Some(key_y.clone());
                        }
                        if err.starts_with("token map:") {
                            // parser and lexer were both built (or found up to date) for the current
                            // configuration; only the step after them failed
                            if after_y.0.is_some() {
                                prov_y = Some(key_y.clone());
                            }
                            if after_l.0.is_some() {
                                prov_l = Some(key_l.clone());
                            }
                        }
                        // the lexer source is read and compiled before the parser builder runs: a
                        // broken .l file, or a valid one whose regexes do not compile under the
                        // current limits (the error then names the lexer source)
                        let lexer_failed_first = flow == "combined" && (BROKEN_LEXERS.iter().any(|(n, _)| *n == lname) || (err.contains("/src/g.l") && !err.contains("/src/g.y")));
                        if let (Some(p), true) = (&prov_y, after_y.0.is_some()) {
                            if *p != key_y {
                                *rep.probes.entry("stale_parser_output_after_failing_build").or_insert(0) += 1;
                                let known = if lexer_failed_first { Some("stale-parser-output-when-lexer-fails-first") } else { None };
                                add(&mut rep, "stale-parser-output-after-failing-build", format!("op {oi}: the build failed ({}) but out/g.y.rs, generated from an earlier grammar/settings, is still on disk; grammar now {} lexer {}", err.chars().take(120).collect::<String>().replace('\n', " "), gname.0, lname), known, oi);
                            }
                        }
                        // In the two-step flow a failing parser step means the build script never
                        // reaches the lexer builder: that file is then out of grmtools' reach.
                        let lexer_builder_ran = flow != "two-step" || rewritten_y || prov_y.as_ref() == Some(&key_y);
                        if let (Some(p), true, true) = (&prov_l, after_l.0.is_some(), lexer_builder_ran) {
                            if *p != key_l {
                                *rep.probes.entry("stale_lexer_output_after_failing_build").or_insert(0) += 1;
                                add(&mut rep, "stale-lexer-output-after-failing-build", format!("op {oi}: the build failed ({}{}) but out/g.l.rs, generated from earlier sources/settings, is still on disk; grammar now {} lexer {}", if panicked { "panic " } else { "" }, err.chars().take(120).collect::<String>().replace('\n', " "), gname.0, lname), None, oi);
                            }
                        }
                    }
                    if rewritten_y {
                        stamp(&py, now);
                    }
                    if rewritten_l {
                        stamp(&pl, now);
                    }
                    dirty = true;
                }
                // abstract state
                let rel = |a: Option<i128>, b: Option<i128>| match (a, b) {
                    (Some(a), Some(b)) => (a.cmp(&b) as i8 + 1) as u8,
                    (None, _) => 3,
                    (_, None) => 4,
                };
                rep.states.push(fnv(format!("{}|{}|{}|{:?}|{:?}|{flow}|{}|{}|{ok}|{:?}", gname.0, gname.1, lname, popts, lopts, rel(mtime_ns(&gy), mtime_ns(&py)), rel(mtime_ns(&gl), mtime_ns(&pl)), injected.as_ref().map(|f| f.0.clone())).as_bytes()));
            }
        }
    }
    rep.log_hash = lh;
    let _ = std::fs::remove_dir_all(dir);
    rep
}

const POPT_POOL: &[(&str, &[&str])] = &[
    ("yacckind", &["Grmtools", "Original(GenericParseTree)", "Original(NoAction)"]),
    ("recoverer", &["None", "CPCTPlus"]),
    ("visibility", &["Private", "Public", "PublicSuper", "PublicSelf", "PublicCrate", "PublicIn:crate::parsers", "PublicIn:crate::frontend"]),
    ("rust_edition", &["2015", "2018", "2021"]),
    ("mod_name", &["custom_y", "other_y", "g_y"]),
    ("error_on_conflicts", &["true", "false"]),
    ("warnings_are_errors", &["true", "false"]),
    ("show_warnings", &["true", "false"]),
    ("serialisation_format", &["FixedSizeInteger", "VariableSizedInteger"]),
    ("storaget", &["u8", "u16", "u32"]),
    ("token_map_rename", &["true", "false"]),
];
const LOPT_POOL: &[(&str, &[&str])] = &[
    ("visibility", &["Private", "Public", "PublicSuper", "PublicSelf", "PublicCrate", "PublicIn:crate::parsers", "PublicIn:crate::frontend"]),
    ("rust_edition", &["2015", "2018", "2021"]),
    ("mod_name", &["custom_l", "other_l", "g_l"]),
    ("allow_missing_terms_in_lexer", &["true", "false"]),
    ("allow_missing_tokens_in_parser", &["true", "false"]),
    ("case_insensitive", &["true", "false"]),
    ("dot_matches_new_line", &["true", "false"]),
    ("warnings_are_errors", &["true", "false"]),
    ("allow_wholeline_comments", &["true", "false"]),
    ("multi_line", &["true", "false"]),
    ("posix_escapes", &["true", "false"]),
    ("octal", &["true", "false"]),
    ("swap_greed", &["true", "false"]),
    ("ignore_whitespace", &["true", "false"]),
    ("unicode", &["true", "false"]),
    ("size_limit", &["64", "1048576", "10485760"]),
    ("dfa_size_limit", &["1048576", "2097152"]),
    ("nest_limit", &["2", "25", "250"]),
];

pub fn generate(r: &mut Rng, max_ops: usize) -> BScenario {
    // swarm: half of the histories keep returning to one parser option and one lexer option, so
    // that the same key takes several different values between builds
    let focus_p = if r.chance(50) { Some(r.below(POPT_POOL.len() as u64) as usize) } else { None };
    let focus_l = if r.chance(50) { Some(r.below(LOPT_POOL.len() as u64) as usize) } else { None };
    let mut last_p: Option<String> = None;
    let mut last_l: Option<String> = None;
    let n = 3 + r.below(max_ops as u64 - 2) as usize;
    let mut ops = vec![];
    // a history that keeps returning to the yacckind mostly starts from a grammar in Original
    // Yacc syntax, so that more than one kind builds successfully
    if focus_p.map_or(false, |f| POPT_POOL[f].0 == "yacckind") && r.chance(70) {
        ops.push(Op::EditGrammar(if r.chance(50) { "go0-orig" } else { "go1-orig-other-rules" }.to_string(), r.chance(50)));
    }
    let ticks = [0u64, 1, 1_000, 1_000_000_000, 3_600_000_000_000];
    let mut since_build = 0;
    while ops.len() < n {
        // focus cycle: set the focus option to another value, let time pass, build - so that one
        // key runs through several values with a build after each (value pairs where one
        // rendering is a prefix of the other, e.g. Public / PublicSuper, are only told apart by
        // an exact comparison of the recorded settings)
        if r.chance(30) {
            let mut did = false;
            // half of the time the next value is a *relative* of the previous one (one rendering a
            // prefix of the other, or the same constructor with another argument): the pairs a
            // sloppy comparison of recorded settings confuses
            let related = |a: &str, b: &str| a != b && (a.starts_with(b) || b.starts_with(a) || (a.contains(':') && b.contains(':') && a.split(':').next() == b.split(':').next()) || (a.contains('(') && b.contains('(') && a.split('(').next() == b.split('(').next()));
            let mut pick_next = |r: &mut Rng, vals: &[&str], last: &Option<String>| -> String {
                if let (Some(l), true) = (last, r.chance(50)) {
                    let rel: Vec<&&str> = vals.iter().filter(|v| related(v, l)).collect();
                    if !rel.is_empty() {
                        return rel[r.below(rel.len() as u64) as usize].to_string();
                    }
                }
                r.pick(vals).to_string()
            };
            if let (Some(f), true) = (focus_p, r.chance(60)) {
                let (k, vals) = POPT_POOL[f];
                let v = pick_next(r, vals, &last_p);
                last_p = Some(v.clone());
                ops.push(Op::SetParserOpt(k.to_string(), Some(v)));
                did = true;
            } else if let Some(f) = focus_l {
                let (k, vals) = LOPT_POOL[f];
                let v = pick_next(r, vals, &last_l);
                last_l = Some(v.clone());
                ops.push(Op::SetLexerOpt(k.to_string(), Some(v)));
                did = true;
            }
            if did {
                if r.chance(75) {
                    ops.push(Op::Tick(*r.pick(&ticks[1..])));
                }
                ops.push(Op::Build(None));
                since_build = 0;
                continue;
            }
        }
        let roll = r.below(100);
        let op = match roll {
            0..=13 if r.chance(7) => {
                // the large grammar comes with the lexer that knows its tokens
                if r.chance(85) {
                    ops.push(Op::EditLexer("l5-many-tokens".into()));
                }
                Op::EditGrammar("g11-many-tokens".into(), r.chance(80))
            }
            0..=13 => {
                let (n, _) = *r.pick(GRAMMARS);
                if r.chance(50) {
                    Op::EditGrammarSalted(n.to_string(), r.chance(80), r.below(1000) as u32)
                } else {
                    Op::EditGrammar(n.to_string(), r.chance(80))
                }
            }
            14..=19 => {
                let pool: Vec<&str> = BROKEN_GRAMMARS.iter().map(|x| x.0).chain(["gbh-bad-header"]).collect();
                Op::EditGrammar(r.pick(&pool).to_string(), true)
            }
            20..=27 => Op::EditLexer(r.pick(LEXERS).0.to_string()),
            28..=31 => Op::EditLexer(r.pick(BROKEN_LEXERS).0.to_string()),
            32..=45 => {
                let (k, vals): (&str, &[&str]) = if let (Some(f), true) = (focus_p, r.chance(65)) { POPT_POOL[f] } else { *r.pick(POPT_POOL) };
                let unset_ok = matches!(k, "yacckind" | "recoverer" | "mod_name");
                Op::SetParserOpt(k.to_string(), if unset_ok && r.chance(30) { None } else { Some(r.pick(vals).to_string()) })
            }
            46..=53 => {
                let (k, vals): (&str, &[&str]) = if let (Some(f), true) = (focus_l, r.chance(65)) { LOPT_POOL[f] } else { *r.pick(LOPT_POOL) };
                Op::SetLexerOpt(k.to_string(), if k == "mod_name" && r.chance(30) { None } else { Some(r.pick(vals).to_string()) })
            }
            54..=56 => Op::SetFlow(r.pick(&["combined", "two-step"]).to_string()),
            57..=62 => {
                if r.chance(50) {
                    Op::TouchGrammar
                } else {
                    Op::TouchLexer
                }
            }
            63..=67 => {
                if r.chance(60) {
                    Op::DeleteParserOut
                } else {
                    Op::DeleteLexerOut
                }
            }
            _ => {
                let fault = match r.below(100) {
                    0..=79 => None,
                    80..=86 => Some(("error".to_string(), *r.pick(&[0u64, 100, 600, 2000, 5000, 9000, 20000]))),
                    87..=92 => Some(("short".to_string(), *r.pick(&[0u64, 100, 600, 2000, 5000, 9000, 20000]))),
                    _ => Some(("crash".to_string(), *r.pick(&[0u64, 100, 600, 2000, 5000, 9000, 20000]))),
                };
                Op::Build(fault)
            }
        };
        let is_build = matches!(op, Op::Build(_));
        ops.push(op);
        if is_build {
            since_build = 0;
            // a second build right away exercises the skip path
            if r.chance(35) {
                if r.chance(70) {
                    ops.push(Op::Tick(*r.pick(&ticks[1..])));
                }
                ops.push(Op::Build(None));
            }
        } else {
            since_build += 1;
        }
        if r.chance(55) {
            ops.push(Op::Tick(*r.pick(&ticks)));
        }
        if since_build >= 3 && r.chance(60) {
            ops.push(Op::Build(None));
            since_build = 0;
        }
    }
    if !matches!(ops.last(), Some(Op::Build(_))) {
        ops.push(Op::Build(None));
    }
    let hash_seed = r.next();
    let symlinked_sources = r.chance(20);
    // drawn last, so that histories without them are what they were before these operations existed
    for (p, pick) in [(12u64, 0u64), (12, 1)] {
        if r.chance(p) && ops.len() >= 2 {
            let at = 1 + r.below(ops.len() as u64 - 1) as usize;
            let op = if pick == 0 {
                if r.chance(65) {
                    Op::RemoveGrammarSource
                } else {
                    Op::RemoveLexerSource
                }
            } else {
                Op::SwitchGrammarFile
            };
            ops.insert(at, op);
            if !matches!(ops.last(), Some(Op::Build(_))) {
                ops.push(Op::Build(None));
            }
        }
    }
    BScenario { hash_seed, ops, symlinked_sources, layouts: vec![] }
}

pub fn generate_layouts(r: &mut Rng) -> BScenario {
    const DIRS: [&str; 4] = ["", "a", "b", "a/deep"];
    let n = 2 + r.below(3) as usize;
    let layouts = (0..n).map(|_| if r.chance(35) { let d = *r.pick(&DIRS); (d.to_string(), d.to_string()) } else { (r.pick(&DIRS).to_string(), r.pick(&DIRS).to_string()) }).collect();
    BScenario { hash_seed: r.next(), ops: vec![], symlinked_sources: false, layouts }
}

fn execute_layouts(exe: &Path, sc: &BScenario, dir: &Path) -> BReport {
    let mut rep = BReport::default();
    let _ = std::fs::remove_dir_all(dir);
    let krate = dir.join("crate");
    let out = dir.join("out");
    let clean = dir.join("clean");
    std::fs::create_dir_all(krate.join("src")).unwrap();
    std::fs::create_dir_all(&out).unwrap();
    let rel = |d: &str, f: &str| if d.is_empty() { f.to_string() } else { format!("{d}/{f}") };
    let mut at: Option<(String, String)> = None;
    let mut lh = fnv(b"B-layout");
    for (oi, (gd, ld)) in sc.layouts.iter().enumerate() {
        // move (or create) the sources
        let (gp, lp) = (krate.join("src").join(rel(gd, "g.y")), krate.join("src").join(rel(ld, "g.l")));
        std::fs::create_dir_all(gp.parent().unwrap()).unwrap();
        std::fs::create_dir_all(lp.parent().unwrap()).unwrap();
        match &at {
            Some((og, ol)) => {
                if og != gd {
                    std::fs::rename(krate.join("src").join(rel(og, "g.y")), &gp).unwrap();
                }
                if ol != ld {
                    std::fs::rename(krate.join("src").join(rel(ol, "g.l")), &lp).unwrap();
                }
            }
            None => {
                std::fs::write(&gp, grammar_text("g0-calc", true)).unwrap();
                std::fs::write(&lp, lexer_text("l0")).unwrap();
            }
        }
        at = Some((gd.clone(), ld.clone()));
        stamp(&gp, 1_000_000_000);
        stamp(&lp, 1_000_000_000);
        let spec = |out_dir: &Path| BuildSpec {
            hash_seed: sc.hash_seed.wrapping_add(oi as u64),
            grammar_path: rel(gd, "g.y"),
            lexer_path: rel(ld, "g.l"),
            parser_out: String::new(),
            lexer_out: String::new(),
            parser: ParserOpts::default(),
            lexer: LexerOpts::default(),
            flow: "combined".into(),
            token_map_dir: None,
            fsize_limit: None,
            fsize_mode: None,
            prelude: vec![],
            lex_probe: None,
            src_dir_mode: Some((krate.to_str().unwrap().into(), out_dir.to_str().unwrap().into())),
            cwd: None,
        };
        rep.builds += 1;
        let (code, _sig, res) = run_build_child_sig(exe, &spec(&out), dir, "b");
        let ok = code == Some(0) && res.as_ref().map_or(false, |r| r.ok);
        let _ = std::fs::remove_dir_all(&clean);
        std::fs::create_dir_all(&clean).unwrap();
        let (ccode, _csig, cres) = run_build_child_sig(exe, &spec(&clean), dir, "c");
        let clean_ok = ccode == Some(0) && cres.as_ref().map_or(false, |r| r.ok);
        *rep.probes.entry("layout_builds").or_insert(0) += 1;
        if gd != ld {
            *rep.probes.entry("layout_builds_with_grammar_and_lexer_in_different_directories").or_insert(0) += 1;
        }
        lh = fnv_add(lh, format!("{oi}|{ok}|{clean_ok}").as_bytes());
        let err = |r: &Option<crate::buildstep::BuildResult>| r.as_ref().map(|r| r.error.chars().take(160).collect::<String>());
        if ok != clean_ok {
            rep.findings.push(BFinding { class: "outcome-differs-from-clean-build".into(), detail: format!("layout step {oi} (grammar in src/{gd:?}, lexer in src/{ld:?}; grammar_in_src_dir / lexer_in_src_dir): build into the OUT_DIR of the earlier steps succeeded: {ok}, into an empty OUT_DIR: {clean_ok} ({:?} / {:?})", err(&res), err(&cres)), known: None, at_op: oi });
        } else if ok {
            rep.nontrivial = true;
            for (what, f) in [("parser", rel(gd, "g.y.rs")), ("lexer", rel(ld, "g.l.rs"))] {
                let (a, b) = (std::fs::read(out.join(&f)).ok(), std::fs::read(clean.join(&f)).ok());
                if a.is_none() || a.as_ref().map(|x| norm_hash(x, dir)) != b.as_ref().map(|x| norm_hash(x, dir)) {
                    rep.findings.push(BFinding { class: format!("{what}-output-differs-from-clean-build"), detail: format!("layout step {oi}: OUT_DIR/{f} {} after the incremental build, {} after the clean one, contents differ or one is missing", a.map_or("absent".into(), |x| format!("{} bytes", x.len())), b.map_or("absent".into(), |x| format!("{} bytes", x.len()))), known: None, at_op: oi });
                }
            }
        }
    }
    rep.log_hash = lh;
    rep
}

fn shrink(exe: &Path, sc: &BScenario, class: &str, dir: &Path) -> BScenario {
    let fails = |c: &BScenario| execute(exe, c, dir).findings.iter().any(|f| f.known.is_none() && f.class == class);
    let mut cur = sc.clone();
    if !cur.layouts.is_empty() {
        let mut i = 0;
        while i < cur.layouts.len() && cur.layouts.len() > 1 {
            let mut c = cur.clone();
            c.layouts.remove(i);
            if fails(&c) {
                cur = c;
            } else {
                i += 1;
            }
        }
        return cur;
    }
    // cut after the failing op
    if let Some(f) = execute(exe, &cur, dir).findings.iter().find(|f| f.known.is_none() && f.class == class) {
        let mut c = cur.clone();
        c.ops.truncate(f.at_op + 1);
        if fails(&c) {
            cur = c;
        }
    }
    loop {
        let mut progress = false;
        let mut i = cur.ops.len();
        while i > 0 {
            i -= 1;
            if cur.ops.len() <= 1 {
                break;
            }
            let mut c = cur.clone();
            c.ops.remove(i);
            if fails(&c) {
                cur = c;
                progress = true;
            }
        }
        if !progress {
            break;
        }
    }
    cur
}

pub fn replay_main(v: &Value, path: &str, quiet: bool) -> i32 {
    let sc: BScenario = match serde_json::from_value(v["scenario"].clone()) {
        Ok(s) => s,
        Err(e) => {
            eprintln!("harness error: {e}");
            return EXIT_HARNESS;
        }
    };
    let class = v["class"].as_str().unwrap_or("");
    let scratch = scratch_base();
    let rep = execute(&std::env::current_exe().unwrap(), &sc, &scratch.join("h"));
    let _ = std::fs::remove_dir_all(&scratch);
    let mut hit = false;
    for f in &rep.findings {
        if !quiet {
            println!("finding: class={} known={:?} :: {}", f.class, f.known, f.detail);
        }
        if f.class == class && (f.known.is_none() || f.known.as_deref() == v["signature"].as_str()) {
            hit = true;
        }
    }
    if hit {
        println!("VIOLATION property=C18 replay={path} class={class}");
        EXIT_VIOLATION
    } else {
        println!("replay: class {class} did not reproduce");
        EXIT_OK
    }
}

pub fn check_main(tier: &str) -> i32 {
    let t0 = real_now_s();
    let vdir = verif_dir();
    let known = match load_known(&vdir) {
        Ok(k) => k,
        Err(e) => {
            eprintln!("harness error: {e}");
            return EXIT_HARNESS;
        }
    };
    let seed = seed_from_env();
    let thorough = tier == "thorough";
    let count: u64 = std::env::var("VERIF_B_COUNT").ok().and_then(|s| s.parse().ok()).unwrap_or(if thorough { 80_000 } else { 4_000 });
    let max_ops = if thorough { 30 } else { 12 };
    let w = ncpu() as u64;
    let exe = std::env::current_exe().unwrap();
    let scratch = scratch_base();
    // self-test: the scratch file system must keep nanosecond stamps
    {
        let p = scratch.join("stamp-test");
        std::fs::write(&p, b"x").unwrap();
        stamp(&p, 1_000_000_001);
        if mtime_ns(&p) != Some(1_000_000_001) {
            eprintln!("harness error: scratch directory {} does not keep nanosecond mtimes", scratch.display());
            return EXIT_HARNESS;
        }
        let _ = std::fs::remove_file(&p);
    }
    println!("engine B: property=C18 tier={tier} VERIF_SEED={seed} histories={count} (<= {max_ops} ops) threads={w}");
    struct Tot {
        builds: u64,
        probes: BTreeMap<&'static str, u64>,
        viol: BTreeMap<String, (u64, u64, BScenario, String)>,
        known: BTreeMap<String, (u64, String)>,
        digests: Vec<u64>,
        states: Vec<u64>,
        loghash: u64,
        samples: Vec<Value>,
        opkinds: BTreeMap<String, u64>,
        sim_ns: u64,
    }
    let tot = Mutex::new(Tot { builds: 0, probes: BTreeMap::new(), viol: BTreeMap::new(), known: BTreeMap::new(), digests: vec![], states: vec![], loghash: 0, samples: vec![], opkinds: BTreeMap::new(), sim_ns: 0 });
    std::thread::scope(|s| {
        for o in 0..w {
            let tot = &tot;
            let scratch = &scratch;
            let exe = &exe;
            s.spawn(move || {
                let mut i = o;
                // indices beyond `count` are layout histories (*_in_src_dir, sources moved)
                while i < count + count / 16 {
                    let mut r = Rng::new(mix(seed, ENGINE_TAG, i));
                    let sc = if i < count { generate(&mut r, max_ops) } else { generate_layouts(&mut r) };
                    let rep = execute(exe, &sc, &scratch.join(format!("h{i}")));
                    let mut t = tot.lock().unwrap();
                    t.builds += rep.builds;
                    for (k, v) in &rep.probes {
                        *t.probes.entry(k).or_insert(0) += v;
                    }
                    for op in &sc.ops {
                        if let Op::Tick(d) = op {
                            t.sim_ns = t.sim_ns.saturating_add(*d);
                        }
                        let k = format!("{:?}", op);
                        let k = k.split('(').next().unwrap_or("").to_string();
                        *t.opkinds.entry(k).or_insert(0) += 1;
                    }
                    if rep.nontrivial {
                        t.digests.push(fnv(serde_json::to_string(&sc.ops).unwrap().as_bytes()));
                    }
                    t.states.extend(rep.states.iter());
                    t.loghash = t.loghash.wrapping_add(mix(i, rep.log_hash, 0));
                    if t.samples.len() < 2 && i % 5 == 0 {
                        t.samples.push(json!({"index": i, "ops": sc.ops}));
                    }
                    for f in rep.findings {
                        match f.known {
                            None => {
                                let e = t.viol.entry(f.class.clone()).or_insert((0, i, sc.clone(), f.detail.clone()));
                                e.0 += 1;
                                if i < e.1 {
                                    *e = (e.0, i, sc.clone(), f.detail.clone());
                                }
                            }
                            Some(id) => {
                                let e = t.known.entry(id).or_insert((0, f.detail.clone()));
                                e.0 += 1;
                            }
                        }
                    }
                    drop(t);
                    i += w;
                }
            });
        }
    });
    let mut t = tot.into_inner().unwrap();
    let mut exit = EXIT_OK;
    let mut nviol = 0;
    let mut lines = vec![];
    for (id, (cnt, what)) in &t.known {
        if is_listed(&known, "C18", id) {
            let e = known.iter().find(|k| k.id == *id && k.property == "C18").unwrap();
            lines.push(format!("KNOWN-FINDING: property=C18 id={id} occurrences={cnt} {} -- e.g. {what}", e.what));
        } else {
            nviol += cnt;
            exit = EXIT_VIOLATION;
            lines.push(format!("VIOLATION property=C18 replay=(signature {id} not listed in known_findings.json) :: {what}"));
        }
    }
    for (class, (cnt, idx, sc, detail)) in &t.viol {
        nviol += cnt;
        exit = EXIT_VIOLATION;
        let small = shrink(&exe, sc, class, &scratch.join("shrink"));
        let d = execute(&exe, &small, &scratch.join("shrink")).findings.iter().find(|f| f.known.is_none() && f.class == *class).map(|f| f.detail.clone()).unwrap_or(detail.clone());
        let replay = json!({"engine": "B", "property": "C18", "class": class, "seed": seed, "index": idx, "occurrences_in_run": cnt, "detail": d, "original_ops": sc.ops.len(), "scenario": small});
        let path = write_replay(&vdir, &format!("C18-{}-{}.json", sanitize(class), seed), &replay).unwrap();
        let st = crate::driver_r::run_guarded(&exe, &["replay", path.to_str().unwrap(), "--quiet"], 120.0);
        if st != Some(1) {
            eprintln!("harness error: replay of {} did not reproduce (status {:?})", path.display(), st);
            let _ = std::fs::remove_dir_all(&scratch);
            return EXIT_HARNESS;
        }
        lines.push(format!("VIOLATION property=C18 replay={} class={class} occurrences={cnt} :: {d}", path.display()));
    }
    let _ = std::fs::remove_dir_all(&scratch);
    t.digests.sort_unstable();
    t.digests.dedup();
    t.states.sort_unstable();
    t.states.dedup();
    let wall = real_now_s() - t0;
    let mut extra: BTreeMap<String, Value> = BTreeMap::new();
    extra.insert("build_steps_executed_as_child_processes".into(), json!(t.builds * 2));
    extra.insert("runs_per_hour".into(), json!((count as f64 / wall * 3600.0) as u64));
    extra.insert("operations_by_kind".into(), json!(t.opkinds));
    extra.insert("simulated_file_system_time_covered_ns".into(), json!(t.sim_ns));
    extra.insert("probes_and_faults_fired".into(), json!(t.probes));
    extra.insert("distinct_states".into(), json!({"count": t.states.len(), "measure": "distinct (grammar variant, header, lexer variant, parser options, lexer options, flow, order of grammar/parser-output mtimes, order of lexer/lexer-output mtimes, build outcome, fault kind) after a build"}));
    extra.insert("event_log_hash".into(), json!(format!("{:016x}", t.loghash)));
    extra.insert("real_components".into(), json!(["lrlex::CTLexerBuilder::build", "lrpar::CTParserBuilder::build (cache string, mtime comparison, output_file)", "the file system (tmpfs) with simulator-stamped mtimes", "the kernel's RLIMIT_FSIZE for short writes / SIGXFSZ"]));
    extra.insert("stub_components".into(), json!(["wall clock for file mtimes: every source and output is stamped from the simulated clock", "getrandom per child process"]));
    let ev = Evidence {
        property: "C18".into(),
        tier: tier.into(),
        seed,
        evaluations: count,
        distinct_nontrivial: t.digests.len() as u64,
        rule: format!("history i of stream VERIF_SEED: <= {max_ops} operations from {{edit grammar ({} valid, 4 invalid variants, with/without %grmtools header), edit lexer (5 valid, 3 invalid), set a parser option ({} keys), set a lexer option ({} keys: every CTLexerBuilder setter except lexerkind), switch flow, tick 0/1ns/1us/1s/1h, touch, delete an output, remove a source file, point the builder at a same-named older grammar file in another directory, build with no fault / short-write error / crash at byte n / one short write without error at byte n (libc `write` interposed in the child)}}; after every build a clean build of the same sources and settings into an empty directory (parser, lexer and the CTTokenMapBuilder module are compared; a build that prints cargo:rerun-if-changed for one source must print it for both). One history in five reaches its sources through symbolic links (edits go to the target); one grammar has 220 tokens (a cache comment of several KiB). A further {} *layout histories* move the (unedited) sources between sub-directories of src/ and build with grammar_in_src_dir / lexer_in_src_dir into one persistent OUT_DIR and an empty one. Non-trivial = the history contains a successful build after a change to the parser's inputs; distinct = distinct operation sequence.", GRAMMARS.len() + 1, POPT_POOL.len(), LOPT_POOL.len(), count / 16),
        samples: t.samples.clone(),
        extra,
        assumptions: vec!["mtimes are the simulator's clock; backward or coarse file-system clocks are not modelled".into(), "one build per child process (the builders refuse a second build to the same path in one process)".into(), "byte equality is unmasked: all children share one lrpar/lrlex build and hence one embedded build timestamp".into()],
        wall_s: wall,
        violations: nviol,
    };
    if let Err(e) = ev.write(&vdir) {
        eprintln!("harness error: evidence: {e}");
        return EXIT_HARNESS;
    }
    println!("engine B: {count} histories, {} builds (+ as many clean reference builds), {} distinct non-trivial histories, {} distinct states, {:.1}s, loghash {:016x}", t.builds, t.digests.len(), t.states.len(), wall, t.loghash);
    for l in lines {
        println!("{l}");
    }
    exit
}

#[allow(dead_code)]
fn unused(_: PathBuf) {}
