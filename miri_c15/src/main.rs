//! C15, thread dimension: several threads call a generated parser for the first time at once;
//! each must get the sequential result. Run under Miri's seeded scheduler
//! (-Zmiri-many-seeds, -Zmiri-preemption-rate): data races and UB are errors too.
use std::sync::{Arc, Barrier};

use cfgrammar::{NewlineCache, Span};
use lrlex::{DefaultLexeme, DefaultLexerTypes, LRNonStreamingLexer};
use lrpar::Lexeme;

include!(concat!(env!("OUT_DIR"), "/gt.y.rs"));
include!(concat!(env!("OUT_DIR"), "/acts.y.rs"));
include!(concat!(env!("OUT_DIR"), "/tokens.rs"));

/// Hand-written lexer (no regex at run time): single-character operators and decimal integers.
fn lex<'a>(input: &'a str, toks: &[(&str, u32)]) -> LRNonStreamingLexer<'a, 'a, DefaultLexerTypes<u32>> {
    let id = |n: &str| toks.iter().find(|(k, _)| *k == n).map(|(_, v)| *v).unwrap();
    let b = input.as_bytes();
    let mut lexemes = vec![];
    let mut i = 0;
    while i < b.len() {
        let c = b[i] as char;
        if c.is_ascii_whitespace() {
            i += 1;
            continue;
        }
        if c.is_ascii_digit() {
            let st = i;
            while i < b.len() && (b[i] as char).is_ascii_digit() {
                i += 1;
            }
            lexemes.push(Ok(DefaultLexeme::new(id("INT"), st, i - st)));
            continue;
        }
        let name = match c {
            '+' => "+",
            '*' => "*",
            '(' => "(",
            ')' => ")",
            _ => panic!("unexpected character"),
        };
        lexemes.push(Ok(DefaultLexeme::new(id(name), i, 1)));
        i += 1;
    }
    let mut nlc = NewlineCache::new();
    nlc.feed(input);
    LRNonStreamingLexer::new(input, lexemes, nlc)
}

fn run_gt(input: &str) -> String {
    let lexer = lex(input, GT_TOKENS);
    let (tree, errs) = gt_y::parse(&lexer);
    let mut s = String::new();
    if let Some(t) = tree {
        s.push_str(&format!("{:?}", t));
    } else {
        s.push_str("<no tree>");
    }
    for e in errs {
        // Only the first repair of each error is applied; the full list's order within a rank is
        // documented as nondeterministic, so compare it as a sorted set.
        let mut pp: Vec<String> = e.pp(&lexer, &gt_y::token_epp).lines().map(|l| l.trim_start_matches(|c: char| c.is_ascii_digit() || c == ' ' || c == ':').to_string()).collect();
        pp.sort();
        s.push_str(&format!(" | {}", pp.join(";")));
    }
    s
}

fn run_acts(input: &str, bias: u64) -> String {
    let lexer = lex(input, ACTS_TOKENS);
    let (v, errs) = acts_y::parse(&lexer, bias);
    format!("{:?} errors={} first={:?}", if errs.is_empty() { v } else { None }, errs.len(), errs.first().map(|e| format!("{}", e)))
}

fn race<F: Fn(usize) -> String + Send + Sync + 'static>(n: usize, f: F) -> Vec<String> {
    let f = Arc::new(f);
    let bar = Arc::new(Barrier::new(n));
    let hs: Vec<_> = (0..n)
        .map(|i| {
            let f = f.clone();
            let bar = bar.clone();
            std::thread::spawn(move || {
                bar.wait();
                f(i)
            })
        })
        .collect();
    hs.into_iter().map(|h| h.join().unwrap()).collect()
}

fn main() {
    let _ = Span::new(0, 0);
    let gt_inputs = ["1+2*3", "(4+5", "1+", "2*(3+4)"];
    let acts_inputs = [("1+2*3", 0u64), ("(4+5)*2", 1), ("2*3+4", 2), ("9", 3)];
    let n: usize = std::env::args().nth(1).and_then(|s| s.parse().ok()).unwrap_or(3);
    // first use of each generated parser happens concurrently
    let conc_gt = race(n, move |i| run_gt(gt_inputs[i % gt_inputs.len()]));
    let conc_acts = race(n, move |i| {
        let (s, b) = acts_inputs[i % acts_inputs.len()];
        run_acts(s, b)
    });
    // sequential results afterwards
    for i in 0..n {
        let seq = run_gt(gt_inputs[i % gt_inputs.len()]);
        if seq != conc_gt[i] {
            println!("MISMATCH gt thread {i}: concurrent `{}` sequential `{}`", conc_gt[i], seq);
            std::process::exit(1);
        }
        let (s, b) = acts_inputs[i % acts_inputs.len()];
        let seq = run_acts(s, b);
        if seq != conc_acts[i] {
            println!("MISMATCH acts thread {i}: concurrent `{}` sequential `{}`", conc_acts[i], seq);
            std::process::exit(1);
        }
    }
    // known answers, so that "consistently wrong" is caught as well
    assert_eq!(run_acts("1+2*3", 0), "Some(7) errors=0 first=None");
    assert_eq!(run_acts("(4+5)*2", 1), "Some(33) errors=0 first=None");
    println!("OK threads={n} gt={} acts={}", conc_gt.len(), conc_acts.len());
}
