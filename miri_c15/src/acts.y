%start Expr
%parse-param bias: u64
%%
Expr -> u64: Expr "+" Term { $1 + $3 } | Term { $1 } ;
Term -> u64: Term "*" Factor { $1 * $3 } | Factor { $1 } ;
Factor -> u64: "(" Expr ")" { $2 } | "INT" { match $1 { Ok(l) => $lexer.span_str(l.span()).parse::<u64>().unwrap_or(0) + bias, Err(_) => bias } } ;
