// Generates, from the current /repo tree, one generic-parse-tree parser and one Grmtools parser
// with actions and %parse-param; main.rs races threads on their first use.
use cfgrammar::yacc::{YaccKind, YaccOriginalActionKind};
use lrlex::DefaultLexerTypes;
use lrpar::{CTParserBuilder, RecoveryKind};
use std::fmt::Write;

fn main() {
    let out = std::path::PathBuf::from(std::env::var("OUT_DIR").unwrap());
    println!("cargo:rerun-if-changed=src/gt.y");
    println!("cargo:rerun-if-changed=src/acts.y");
    // The builder's up-to-date check does not notice a change of the *generator* (its cache string
    // records lrpar's build timestamp, which cargo does not refresh when only sources change), so
    // always regenerate from the current tree.
    for f in ["gt.y.rs", "acts.y.rs"] {
        let _ = std::fs::remove_file(out.join(f));
    }
    let gt = CTParserBuilder::<DefaultLexerTypes<u32>>::new()
        .yacckind(YaccKind::Original(YaccOriginalActionKind::GenericParseTree))
        .grammar_path("src/gt.y")
        .output_path(out.join("gt.y.rs"))
        .mod_name("gt_y")
        // Miri's virtual clock makes the 500 ms recovery budget a matter of interpreter speed;
        // time-dependence of recovery is engine R's subject, not this one's.
        .recoverer(RecoveryKind::None)
        .build()
        .unwrap();
    let acts = CTParserBuilder::<DefaultLexerTypes<u32>>::new()
        .yacckind(YaccKind::Grmtools)
        .grammar_path("src/acts.y")
        .output_path(out.join("acts.y.rs"))
        .mod_name("acts_y")
        .recoverer(RecoveryKind::None)
        .build()
        .unwrap();
    // token ids for the hand-written lexer (sorted: the map itself is a HashMap)
    let mut s = String::new();
    for (name, p) in [("GT", &gt), ("ACTS", &acts)] {
        let mut m: Vec<(&String, &u32)> = p.token_map().iter().collect();
        m.sort();
        write!(s, "pub const {name}_TOKENS: &[(&str, u32)] = &[").unwrap();
        for (k, v) in m {
            write!(s, "({:?}, {}), ", k, v).unwrap();
        }
        writeln!(s, "];").unwrap();
    }
    std::fs::write(out.join("tokens.rs"), s).unwrap();
}
