// Generates, from the current /repo tree, one compile-time parser (with wrappers and user
// actions) per grammar block of grammars.txt. Every production's action records its call through
// `crate::rec(..)`; main.rs drives the generated `parse()` functions as simulated processes and
// judges the recorded histories with engine R's oracles.
use cfgrammar::yacc::YaccKind;
use lrlex::DefaultLexerTypes;
use lrpar::{CTParserBuilder, RecoveryKind};
use std::fmt::Write;

fn main() {
    let out = std::path::PathBuf::from(std::env::var("OUT_DIR").unwrap());
    println!("cargo:rerun-if-changed=grammars.txt");
    let src = std::fs::read_to_string("grammars.txt").unwrap();
    let blocks: Vec<String> = src
        .split("\n\n")
        .map(|b| b.lines().filter(|l| !l.starts_with('#')).collect::<Vec<_>>().join("\n"))
        .filter(|b| b.contains("%%"))
        .collect();
    let mut index = String::from("pub const GRAMMARS: &[&str] = &[\n");
    let mut mods = String::new();
    let mut dispatch = String::from("pub fn run_generated(k: usize, lexer: &dyn ::lrpar::NonStreamingLexer<::lrlex::DefaultLexerTypes<u32>>, tag: u64) -> (Option<usize>, Vec<::lrpar::LexParseError<u32, ::lrlex::DefaultLexerTypes<u32>>>) {\n    match k {\n");
    // the same grammars in the other three configurations: actions without recovery, generic
    // parse tree with and without recovery
    let mut dispatch_n = dispatch.replace("run_generated", "run_generated_norecovery");
    let mut dispatch_t = String::from("pub fn run_generated_tree(k: usize, recover: bool, lexer: &dyn ::lrpar::NonStreamingLexer<::lrlex::DefaultLexerTypes<u32>>) -> (Option<crate::reflr::Tree>, Vec<::lrpar::LexParseError<u32, ::lrlex::DefaultLexerTypes<u32>>>) {\n    match (k, recover) {\n");
    for (k, b) in blocks.iter().enumerate() {
        // `%unit Rk` (harness directive, not Yacc): rule Rk has type `()`; its actions record
        // through `rec_unit`, and a parent finds the record of its unit child with `unit($n)`
        let unit_rules: Vec<String> = b.lines().filter_map(|l| l.strip_prefix("%unit ")).map(|s| s.trim().to_string()).collect();
        let b = &b.lines().filter(|l| !l.starts_with("%unit ")).collect::<Vec<_>>().join("\n");
        let (head, body) = b.split_once("%%\n").unwrap();
        let mut y = String::from("%grmtools{yacckind: Grmtools}\n");
        y.push_str(head);
        y.push_str("%parse-param tag: u64\n%%\n");
        // a rule's alternatives may be written in several places (`R1: ..; R2: ..; R1: ..;`):
        // alternative numbers continue where the rule's previous lines stopped
        let mut next_alt: std::collections::HashMap<String, usize> = std::collections::HashMap::new();
        for line in body.lines() {
            let line = line.trim();
            if line.is_empty() {
                continue;
            }
            let (name, rest) = line.split_once(':').unwrap();
            let alt_base = *next_alt.get(name.trim()).unwrap_or(&0);
            let rest = rest.trim().strip_suffix(';').unwrap();
            let is_unit = unit_rules.iter().any(|u| u == name.trim());
            write!(y, "{} -> {}:", name.trim(), if is_unit { "()" } else { "usize" }).unwrap();
            *next_alt.entry(name.trim().to_string()).or_insert(0) += rest.split('|').count();
            for (ai0, alt) in rest.split('|').enumerate() {
                let ai = alt_base + ai0;
                if ai0 > 0 {
                    y.push_str("\n  |");
                }
                let syms: Vec<&str> = alt.split_whitespace().collect();
                let mut args = String::new();
                for (si, s) in syms.iter().enumerate() {
                    if s.starts_with('\'') {
                        write!(args, "crate::lex(${}), ", si + 1).unwrap();
                    } else if unit_rules.iter().any(|u| u == s) {
                        write!(args, "crate::unit(${}), ", si + 1).unwrap();
                    } else {
                        write!(args, "crate::val(${}), ", si + 1).unwrap();
                    }
                }
                assert!(syms.iter().filter(|s| unit_rules.iter().any(|u| u == *s)).count() <= 1, "at most one unit-typed symbol per production");
                write!(y, " {} {{ crate::{}(\"{}\", {}, $span, tag, vec![{}]) }}", syms.join(" "), if is_unit { "rec_unit" } else { "rec" }, name.trim(), ai, args).unwrap();
            }
            y.push_str("\n  ;\n");
        }
        // always regenerate: the builder's up-to-date check does not notice a changed generator
        let _ = std::fs::remove_file(out.join(format!("g{k}.y.rs")));
        let yp = out.join(format!("g{k}.y"));
        std::fs::write(&yp, &y).unwrap();
        let mod_name: &'static str = Box::leak(format!("g{k}_y").into_boxed_str());
        CTParserBuilder::<DefaultLexerTypes<u32>>::new()
            .yacckind(YaccKind::Grmtools)
            .recoverer(RecoveryKind::CPCTPlus)
            .grammar_path(&yp)
            .output_path(out.join(format!("g{k}.y.rs")))
            .mod_name(mod_name)
            .error_on_conflicts(false)
            .warnings_are_errors(false)
            .show_warnings(false)
            .build()
            .unwrap();
        // actions, RecoveryKind::None
        let modn: &'static str = Box::leak(format!("g{k}n_y").into_boxed_str());
        let _ = std::fs::remove_file(out.join(format!("g{k}n.y.rs")));
        CTParserBuilder::<DefaultLexerTypes<u32>>::new()
            .yacckind(YaccKind::Grmtools)
            .recoverer(RecoveryKind::None)
            .grammar_path(&yp)
            .output_path(out.join(format!("g{k}n.y.rs")))
            .mod_name(modn)
            .error_on_conflicts(false)
            .warnings_are_errors(false)
            .show_warnings(false)
            .build()
            .unwrap();
        writeln!(mods, "include!(concat!(env!(\"OUT_DIR\"), \"/g{k}n.y.rs\"));").unwrap();
        writeln!(dispatch_n, "        {k} => g{k}n_y::parse(lexer, tag),").unwrap();
        // generic parse tree, with and without recovery
        let tp = out.join(format!("g{k}t.y"));
        std::fs::write(&tp, b).unwrap();
        for (suffix, rk, flag) in [("t", RecoveryKind::CPCTPlus, "true"), ("tn", RecoveryKind::None, "false")] {
            let modt: &'static str = Box::leak(format!("g{k}{suffix}_y").into_boxed_str());
            let _ = std::fs::remove_file(out.join(format!("g{k}{suffix}.y.rs")));
            CTParserBuilder::<DefaultLexerTypes<u32>>::new()
                .yacckind(YaccKind::Original(cfgrammar::yacc::YaccOriginalActionKind::GenericParseTree))
                .recoverer(rk)
                .grammar_path(&tp)
                .output_path(out.join(format!("g{k}{suffix}.y.rs")))
                .mod_name(modt)
                .error_on_conflicts(false)
                .warnings_are_errors(false)
                .show_warnings(false)
                .build()
                .unwrap();
            writeln!(mods, "include!(concat!(env!(\"OUT_DIR\"), \"/g{k}{suffix}.y.rs\"));").unwrap();
            writeln!(dispatch_t, "        ({k}, {flag}) => {{ let (t, e) = g{k}{suffix}_y::parse(lexer); (t.map(|t| g{k}{suffix}_y_conv(&t)), e) }}").unwrap();
            writeln!(mods, "fn g{k}{suffix}_y_conv(n: &g{k}{suffix}_y::Node<::lrlex::DefaultLexeme<u32>, u32>) -> crate::reflr::Tree {{ match n {{ g{k}{suffix}_y::Node::Term {{ lexeme }} => crate::term_of(lexeme), g{k}{suffix}_y::Node::Nonterm {{ ridx, nodes }} => crate::reflr::Tree::Nonterm {{ ridx: ridx.0 as u16, pidx: None, kids: nodes.iter().map(g{k}{suffix}_y_conv).collect() }} }} }}").unwrap();
        }
        writeln!(index, "    {:?},", b).unwrap();
        writeln!(mods, "include!(concat!(env!(\"OUT_DIR\"), \"/g{k}.y.rs\"));").unwrap();
        writeln!(dispatch, "        {k} => g{k}_y::parse(lexer, tag),").unwrap();
    }
    index.push_str("];\n");
    dispatch.push_str("        _ => unreachable!(),\n    }\n}\n");
    dispatch_n.push_str("        _ => unreachable!(),\n    }\n}\n");
    dispatch_t.push_str("        _ => unreachable!(),\n    }\n}\n");
    std::fs::write(out.join("generated.rs"), format!("{mods}\n{index}\n{dispatch}\n{dispatch_n}\n{dispatch_t}")).unwrap();
}
