//! C08 over the *generated* code path: the parsers build.rs generates (CTParserBuilder output:
//! deserialised tables behind a OnceLock, wrapper functions that turn the action stack into typed
//! arguments, user actions) are run as simulated processes (same libc seams, same clock
//! policies) and the recorded action history is judged by engine R's oracles; the run-time
//! `parse_map` on the same grammar is the second execution it is compared with.
//!
//! usage: gen_c08 <VERIF_SEED> <count> | gen_c08 --replay <file>
#![allow(dead_code)]
#[path = "../../sim/src/engine_r.rs"]
mod engine_r;
#[path = "../../sim/src/gram.rs"]
mod gram;
#[path = "../../sim/src/lexstub.rs"]
mod lexstub;
#[path = "../../sim/src/reflr.rs"]
mod reflr;
#[path = "../../sim/src/rng.rs"]
mod rng;
#[path = "../../sim/src/seams.rs"]
mod seams;

use std::cell::RefCell;
use std::collections::BTreeMap;
use std::sync::Mutex;

use cfgrammar::Span;
use lrlex::{DefaultLexeme, DefaultLexerTypes, LRNonStreamingLexer};
use lrpar::{LexParseError, Lexeme, ParseRepair};
use serde_json::{json, Value};

use engine_r::{execute, gen_fault, gen_with_grammar, ActRun, Arg, ExecOpts, GenParams, RRp, RScenario, RealErr, Rec, ACTION_CALL_CAP, PARAM_MAGIC};
use lexstub::{Lx, StubLexer};
use rng::{fnv, mix, Rng};
use seams::{sim_process, ClockPolicy, SimOutcome, SimStats};

include!(concat!(env!("OUT_DIR"), "/generated.rs"));

// ---- what the generated actions call ------------------------------------------------------------
pub enum RawArg {
    Lex(DefaultLexeme<u32>, bool),
    Val(usize),
}
pub struct RawRec {
    rule: &'static str,
    alt: usize,
    span: (usize, usize),
    tag: u64,
    args: Vec<RawArg>,
}
thread_local! {
    static RECS: RefCell<Vec<RawRec>> = const { RefCell::new(Vec::new()) };
}
pub fn lex(r: Result<DefaultLexeme<u32>, DefaultLexeme<u32>>) -> RawArg {
    match r {
        Ok(l) => RawArg::Lex(l, true),
        Err(l) => RawArg::Lex(l, false),
    }
}
pub fn val(v: usize) -> RawArg {
    RawArg::Val(v)
}
pub fn rec(rule: &'static str, alt: usize, span: Span, tag: u64, args: Vec<RawArg>) -> usize {
    RECS.with(|r| {
        let mut r = r.borrow_mut();
        if r.len() > ACTION_CALL_CAP {
            panic!("HARNESS-LOOP-GUARD: more than {ACTION_CALL_CAP} reductions");
        }
        r.push(RawRec { rule, alt, span: (span.start(), span.end()), tag, args });
        r.len() - 1
    })
}

/// Actions of `()`-typed rules: the record's index cannot travel through the value, so it waits
/// on a stack until the parent's action claims it with `unit($n)`. Reductions happen bottom-up,
/// left to right, and a production has at most one unit-typed symbol: the record on top is the
/// child's.
thread_local! {
    static UNCLAIMED: RefCell<Vec<usize>> = const { RefCell::new(Vec::new()) };
}
pub fn rec_unit(rule: &'static str, alt: usize, span: Span, tag: u64, args: Vec<RawArg>) {
    let i = rec(rule, alt, span, tag, args);
    UNCLAIMED.with(|u| u.borrow_mut().push(i));
}
pub fn unit(_: ()) -> RawArg {
    RawArg::Val(UNCLAIMED.with(|u| u.borrow_mut().pop()).unwrap_or(usize::MAX))
}

pub fn term_of(l: &DefaultLexeme<u32>) -> reflr::Tree {
    reflr::Tree::Term { tok: l.tok_id() as u16, start: l.span().start(), len: l.span().len(), faulty: l.faulty() }
}

fn conv_errs(errs: Vec<LexParseError<u32, DefaultLexerTypes<u32>>>) -> Vec<RealErr> {
    let mut errors = vec![];
    for e in errs {
        if let LexParseError::ParseError(pe) = e {
            let repairs = pe
                .repairs()
                .iter()
                .map(|r| {
                    r.iter()
                        .map(|x| match x {
                            ParseRepair::Insert(t) => RRp::Ins(t.0 as u16),
                            ParseRepair::Delete(l) => RRp::Del(to_lx(l)),
                            ParseRepair::Shift(l) => RRp::Sh(to_lx(l)),
                        })
                        .collect()
                })
                .collect();
            errors.push(RealErr { lexeme: to_lx(pe.lexeme()), stidx: u32::from(pe.stidx()) as u16, repairs });
        }
    }
    errors
}

fn mk_lexer(lexer: &StubLexer) -> LRNonStreamingLexer<'_, '_, DefaultLexerTypes<u32>> {
    let lexemes: Vec<Result<DefaultLexeme<u32>, lrlex::LRLexError>> = lexer.lexemes.iter().map(|l| Ok(DefaultLexeme::new(l.tok_id as u32, l.start, l.len))).collect();
    let mut nlc = cfgrammar::newlinecache::NewlineCache::new();
    nlc.feed(&lexer.text);
    LRNonStreamingLexer::new(&lexer.text, lexemes, nlc)
}

/// The other three generated configurations of grammar `k` on the same input: the two modes
/// (actions / generic parse tree) must agree, and a parser generated with `RecoveryKind::None`
/// must not recover. Returns (class, detail) findings.
fn other_modes(k: usize, sc: &RScenario) -> Vec<(String, String)> {
    let mut out = vec![];
    let Ok(prep) = engine_r::prepare(sc) else { return out };
    let lexer = StubLexer::new(&prep.toks, &sc.gaps, &sc.zero_width);
    let clock = ClockPolicy { tick_ns: sc.clock.tick_ns, jumps: vec![] };
    let (a, _) = run_gen(k, &prep.built, &lexer, sc.hash_seed, &clock);
    let SimOutcome::Ok(a) = a else { return out };
    let a_tree = a.value.filter(|v| *v < a.recs.len()).map(|v| engine_r::build_tree(&a.recs, v));
    // actions, no recovery
    let (n, _) = sim_process(sc.hash_seed, Some(&clock), || {
        RECS.with(|r| r.borrow_mut().clear());
        UNCLAIMED.with(|u| u.borrow_mut().clear());
        let lx = mk_lexer(&lexer);
        let (v, errs) = run_generated_norecovery(k, &lx, PARAM_MAGIC);
        (v.is_some(), conv_errs(errs))
    });
    let (tn, _) = sim_process(sc.hash_seed, Some(&clock), || {
        let lx = mk_lexer(&lexer);
        let (t, errs) = run_generated_tree(k, false, &lx);
        (t, conv_errs(errs))
    });
    let (t, _) = sim_process(sc.hash_seed, Some(&clock), || {
        let lx = mk_lexer(&lexer);
        let (t, errs) = run_generated_tree(k, true, &lx);
        (t, conv_errs(errs))
    });
    let (SimOutcome::Ok((n_val, n_errs)), SimOutcome::Ok((tn_tree, tn_errs)), SimOutcome::Ok((t_tree, t_errs))) = (n, tn, t) else {
        out.push(("C08-generated-mode-panicked".to_string(), "one of the generated parser configurations panicked".to_string()));
        return out;
    };
    let first = a.errors.first();
    for (name, val, errs) in [("actions", n_val, &n_errs), ("generic tree", tn_tree.is_some(), &tn_errs)] {
        match first {
            None => {
                if !val || !errs.is_empty() {
                    out.push(("C08-generated-norecovery".into(), format!("{name} parser generated with RecoveryKind::None: valid input gives value {val}, {} errors", errs.len())));
                }
            }
            Some(f) => {
                if val || errs.len() != 1 || !errs[0].repairs.is_empty() || errs[0].lexeme != f.lexeme || errs[0].stidx != f.stidx {
                    out.push(("C08-generated-norecovery".into(), format!("{name} parser generated with RecoveryKind::None on an input whose first error is at {:?}: value {val}, errors {:?}", f.lexeme, errs.iter().map(|e| (e.lexeme, e.repairs.len())).collect::<Vec<_>>())));
                }
            }
        }
    }
    if first.is_none() {
        if let (Some(x), Some(y)) = (&a_tree, &tn_tree) {
            if !x.same_shape(y) {
                out.push(("C08-e-actions-vs-generic-tree".into(), format!("generated parsers, valid input: actions build {} but the generic tree is {}", x.pp(), y.pp())));
            }
        }
    }
    // with recovery the two modes are different programs and may pick different (equally
    // ranked) repairs; they are compared when they reported the same errors and repairs
    if t_errs == a.errors {
        match (&a_tree, &t_tree) {
            (Some(x), Some(y)) if !x.same_shape(y) => out.push(("C08-e-actions-vs-generic-tree".into(), format!("generated parsers, same repairs: actions build {} but the generic tree is {}", x.pp(), y.pp()))),
            (Some(_), None) | (None, Some(_)) => out.push(("C08-e-actions-vs-generic-tree".into(), "generated parsers, same repairs: one mode returns a value, the other does not".into())),
            _ => {}
        }
    }
    out
}

fn to_lx(l: &DefaultLexeme<u32>) -> Lx {
    Lx { start: l.span().start(), len: l.span().len(), faulty: l.faulty(), tok_id: l.tok_id() as u16 }
}

fn run_gen(k: usize, b: &gram::Built, lexer: &StubLexer, hash_seed: u64, clock: &ClockPolicy) -> (SimOutcome<ActRun>, SimStats) {
    sim_process(hash_seed, Some(clock), || {
        RECS.with(|r| r.borrow_mut().clear());
        UNCLAIMED.with(|u| u.borrow_mut().clear());
        let lexemes: Vec<Result<DefaultLexeme<u32>, lrlex::LRLexError>> = lexer.lexemes.iter().map(|l| Ok(DefaultLexeme::new(l.tok_id as u32, l.start, l.len))).collect();
        let mut nlc = cfgrammar::newlinecache::NewlineCache::new();
        nlc.feed(&lexer.text);
        let lx: LRNonStreamingLexer<DefaultLexerTypes<u32>> = LRNonStreamingLexer::new(&lexer.text, lexemes, nlc);
        let (v, errs) = run_generated(k, &lx, PARAM_MAGIC);
        let mut errors = vec![];
        for e in errs {
            if let LexParseError::ParseError(pe) = e {
                let repairs = pe
                    .repairs()
                    .iter()
                    .map(|r| {
                        r.iter()
                            .map(|x| match x {
                                ParseRepair::Insert(t) => RRp::Ins(t.0 as u16),
                                ParseRepair::Delete(l) => RRp::Del(to_lx(l)),
                                ParseRepair::Shift(l) => RRp::Sh(to_lx(l)),
                            })
                            .collect()
                    })
                    .collect();
                errors.push(RealErr { lexeme: to_lx(pe.lexeme()), stidx: u32::from(pe.stidx()) as u16, repairs });
            }
        }
        let raw = RECS.with(|r| std::mem::take(&mut *r.borrow_mut()));
        let mut notes = vec![];
        let mut recs = vec![];
        for (i, rr) in raw.into_iter().enumerate() {
            let ridx = b.grm.rule_idx(rr.rule).expect("rule name");
            let pidx = b.grm.rule_to_prods(ridx)[rr.alt];
            let args = rr
                .args
                .into_iter()
                .enumerate()
                .map(|(ai, a)| match a {
                    RawArg::Lex(l, ok) => {
                        // the wrappers hand a lexeme over as Ok(..) unless error recovery inserted it
                        if ok == l.faulty() {
                            notes.push(("C08-c-arg-kind".to_string(), format!("generated wrapper: action call {i} argument {ai}: lexeme {:?} (faulty = {}) passed as {}", to_lx(&l), l.faulty(), if ok { "Ok(..)" } else { "Err(..)" })));
                        }
                        Arg::Lex(to_lx(&l))
                    }
                    RawArg::Val(v) => Arg::Val(v),
                })
                .collect();
            recs.push(Rec { pidx: pidx.0, ridx: ridx.0, span: rr.span, args, param: rr.tag });
        }
        ActRun { value: v, errors, lex_errors: 0, recs, notes }
    })
}

fn opts_for(k: usize) -> impl Fn(&gram::Built, &StubLexer, &[u8], u64, &ClockPolicy) -> (SimOutcome<ActRun>, SimStats) + Sync {
    move |b, lexer, _costs, hash_seed, clock| run_gen(k, b, lexer, hash_seed, clock)
}

fn main() {
    let args: Vec<String> = std::env::args().skip(1).collect();
    std::panic::set_hook(Box::new(|_| {}));
    seams::warmup();
    if let Err(e) = seams::selftest() {
        eprintln!("harness error: seam self-test failed: {e}");
        std::process::exit(2);
    }
    if args.first().map(|s| s.as_str()) == Some("--replay") {
        let v: Value = serde_json::from_str(&std::fs::read_to_string(&args[1]).expect("replay file")).expect("json");
        let sc: RScenario = serde_json::from_value(v["scenario"].clone()).expect("scenario");
        let k = v["grammar_index"].as_u64().unwrap() as usize;
        let runner = opts_for(k);
        let rep = execute(&sc, &ExecOpts { act_runner: Some(&runner), ..Default::default() });
        let class = v["class"].as_str().unwrap_or("");
        let mut hit = false;
        for f in &rep.findings {
            println!("finding: property={} class={} known={:?} :: {}", f.property, f.class, f.known, f.detail);
            if f.property == "C08" && f.class == class && f.known.is_none() {
                hit = true;
            }
            if class == "C08-generated-parser-panicked" && f.class == "C07-a-panic" && f.known.is_none() {
                hit = true;
            }
        }
        for (c, d) in other_modes(k, &sc) {
            println!("finding: property=C08 class={c} :: {d}");
            if c == class {
                hit = true;
            }
        }
        if hit {
            println!("VIOLATION property=C08 replay={} class={class}", args[1]);
            std::process::exit(1);
        }
        println!("replay: class {class} did not reproduce");
        return;
    }
    let seed: u64 = args.first().and_then(|s| s.parse().ok()).unwrap_or(1);
    let count: u64 = args.get(1).and_then(|s| s.parse().ok()).unwrap_or(2000);
    let nthreads = std::thread::available_parallelism().map(|n| n.get()).unwrap_or(4).min(16) as u64;
    struct Tot {
        evals: u64,
        with_errors: u64,
        zero_width: u64,
        mode_checks: u64,
        action_calls: u64,
        digests: Vec<u64>,
        viol: BTreeMap<String, (u64, u64, usize, RScenario, String)>,
        known: BTreeMap<String, u64>,
        policy: BTreeMap<String, u64>,
        sample: Option<Value>,
    }
    let tot = Mutex::new(Tot { evals: 0, with_errors: 0, zero_width: 0, mode_checks: 0, action_calls: 0, digests: vec![], viol: BTreeMap::new(), known: BTreeMap::new(), policy: BTreeMap::new(), sample: None });
    std::thread::scope(|s| {
        for o in 0..nthreads {
            let tot = &tot;
            s.spawn(move || {
                let mut i = o;
                while i < count {
                    let mut r = Rng::new(mix(seed, 0x47, i));
                    let k = (i % GRAMMARS.len() as u64) as usize;
                    let gp = GenParams { max_tokens: 20 };
                    if let Some(mut base) = gen_with_grammar(&mut r, format!("generated-parser:{k}"), GRAMMARS[k].to_string(), &gp, true) {
                        // more zero-width lexemes than engine R uses: the wrappers must not mistake
                        // them for inserted ones
                        if r.chance(40) {
                            let mut prev = false;
                            base.zero_width = base.tokens.iter().map(|_| { let z = !prev && r.chance(25); prev = z; z }).collect();
                        }
                        let runner = opts_for(k);
                        let opts = ExecOpts { act_runner: Some(&runner), ..Default::default() };
                        let mut todo = vec![base.clone()];
                        let rep0 = execute(&base, &opts);
                        let reads = rep0.clock_reads;
                        let mut reps = vec![(base, rep0)];
                        if reps[0].1.n_errors > 0 && reads > 0 && r.chance(50) {
                            let f = gen_fault(&mut r, &todo[0], reads);
                            let rf = execute(&f, &opts);
                            reps.push((f, rf));
                        }
                        todo.clear();
                        let extra = if reps[0].1.discarded.is_none() { other_modes(k, &reps[0].0) } else { vec![] };
                        let mut t = tot.lock().unwrap();
                        t.mode_checks += 1;
                        for (class, detail) in extra {
                            let e = t.viol.entry(class.clone()).or_insert((0, i, k, reps[0].0.clone(), detail.clone()));
                            e.0 += 1;
                        }
                        for (sc, rep) in reps {
                            if rep.discarded.is_some() {
                                continue;
                            }
                            t.evals += 1;
                            *t.policy.entry(sc.policy_class.clone()).or_insert(0) += 1;
                            if rep.n_errors > 0 {
                                t.with_errors += 1;
                            }
                            if sc.zero_width.iter().any(|z| *z) {
                                t.zero_width += 1;
                            }
                            t.action_calls += rep.probes.0.get("action_calls").copied().unwrap_or(0);
                            if rep.exercised[3] {
                                t.digests.push(rep.scenario_digest ^ fnv(&[k as u8]));
                            }
                            if t.sample.is_none() && rep.n_errors > 0 {
                                t.sample = Some(json!({"grammar_index": k, "scenario": sc, "errors": rep.n_errors}));
                            }
                            for mut f in rep.findings {
                                // a generated parser that panics (a wrapper popping the wrong
                                // number or kind of arguments) has not run its actions as C08 says
                                if f.class == "C07-a-panic" && f.known.is_none() {
                                    f.property = "C08".into();
                                    f.class = "C08-generated-parser-panicked".into();
                                }
                                if f.property != "C08" {
                                    continue;
                                }
                                match &f.known {
                                    Some(id) => *t.known.entry(id.clone()).or_insert(0) += 1,
                                    None => {
                                        let e = t.viol.entry(f.class.clone()).or_insert((0, i, k, sc.clone(), f.detail.clone()));
                                        e.0 += 1;
                                        if i < e.1 {
                                            *e = (e.0, i, k, sc.clone(), f.detail.clone());
                                        }
                                    }
                                }
                            }
                        }
                    }
                    i += nthreads;
                }
            });
        }
    });
    let mut t = tot.into_inner().unwrap();
    t.digests.sort_unstable();
    t.digests.dedup();
    let viol: Vec<Value> = t.viol.iter().map(|(c, (n, idx, k, sc, d))| json!({"class": c, "occurrences": n, "index": idx, "grammar_index": k, "detail": d, "scenario": sc})).collect();
    println!(
        "{}",
        json!({"evaluations": t.evals, "with_parse_errors": t.with_errors, "inputs_with_zero_width_lexemes": t.zero_width, "action_calls": t.action_calls, "inputs_run_through_all_four_generated_configurations": t.mode_checks,
               "distinct_nontrivial": t.digests.len(), "runs_by_clock_policy": t.policy, "known": t.known, "violations": viol, "sample": t.sample, "grammars": GRAMMARS.len()})
    );
}
